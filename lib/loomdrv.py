"""Engine L driver: one subprocess per loom scenario, classification of the outcome."""
import concurrent.futures as cf
import json
import os
import subprocess
import tempfile
import time

SITES = ["generator", "input_counter", "benched", "drop_output", "drop_input"]


from common import Machinery


def describe(sc):
    if sc["kind"] == "pool":
        return "pool history %s pb=%s" % ([(b["n"], b.get("panics", []), ("ext" if b.get("extend") else "bc") + ("+bomb" if b.get("bomb") else "") + ("@helper" if b.get("caller") else "")) for b in sc["history"]], sc.get("pb"))
    if sc["kind"] == "loop":
        c = sc["case"]
        return "loop entry=%d shapes=%d->%d T=%d n=%s s=%s panic=%s pb=%s" % (
            c["entry"], c["ishape"], c["oshape"], c["threads"], c["sample_count"], c["sample_size"], c["panic"], sc.get("pb"))
    if sc["kind"] == "entrylist":
        return "entry list: threads push %s nodes each, pb=%s" % (sc["pushes"], sc.get("pb"))
    return json.dumps(sc)


def signature(sc, klass):
    sig = {"engine": "L", "class": klass, "kind": sc["kind"]}
    if sc["kind"] == "loop":
        p = sc["case"].get("panic")
        sig["panic_site"] = SITES[p["site"]] if p else None
        sig["panic_thread"] = None if not p else ("caller" if p["thread"] == 0 else "worker")
    if sc["kind"] == "pool":
        sig["panics"] = any(b.get("panics") for b in sc["history"])
    return sig


def run_one(sc, binpath, env, timeout):
    side = tempfile.NamedTemporaryFile(prefix="loomside", suffix=".txt", delete=False)
    side.close()
    os.unlink(side.name)
    t0 = time.time()
    try:
        p = subprocess.run([binpath, "--scenario", json.dumps(sc), "--side", side.name], env=env,
                           stdout=subprocess.PIPE, stderr=subprocess.PIPE, text=True, timeout=timeout)
    except subprocess.TimeoutExpired:
        raise Machinery("loom scenario timed out after %ss (cap hit, no verdict): %s" % (timeout, describe(sc)))
    wall = time.time() - t0
    first = None
    if os.path.exists(side.name):
        first = open(side.name).read()
        os.unlink(side.name)
    result = None
    for line in p.stdout.splitlines():
        if line.startswith("RESULT "):
            result = json.loads(line[7:])
    if p.returncode == 0 and result is not None and first is None:
        return {"ok": True, "result": result, "wall": wall}
    if first is None:
        raise Machinery("loom engine died without a recorded panic (rc=%s): %s\n%s" % (p.returncode, describe(sc), p.stderr[-1500:]))
    msg = first.splitlines()[0]
    iteration = first.splitlines()[1] if len(first.splitlines()) > 1 else ""
    if msg.startswith("oracle:"):
        _, prop, klass, text = msg.split(":", 3)
        return {"ok": False, "prop": prop, "class": klass, "text": text, "iteration": iteration, "wall": wall}
    if "deadlock; threads" in msg:
        return {"ok": False, "prop": None, "class": "deadlock", "iteration": iteration, "wall": wall,
                "text": "no runnable thread while some thread has not terminated (deadlock / lost wake-up / leaked worker): " + msg.split(" @")[0]}
    if "Causality violation" in msg or "concurrent" in msg.lower() and "access" in msg.lower():
        return {"ok": False, "prop": "C06", "class": "causality", "iteration": iteration, "wall": wall,
                "text": "data written by a task call was read without a happens-before edge: " + msg.split(" @")[0]}
    if "use-after-return" in msg:
        return {"ok": False, "prop": "C06", "class": "use-after-return", "iteration": iteration, "wall": wall, "text": msg.split(" @")[0]}
    if "Messages leaked" in msg:
        # loom's end-of-execution check: a channel still holds a message nobody received. The only channels of the pool
        # are the per-worker task channels, and the last message of each is the facade's disconnect notice (pool drop):
        # it stays unreceived exactly when the worker left its receive loop earlier - a worker that was retired instead
        # of being kept for later broadcasts.
        return {"ok": False, "prop": "C06", "class": "worker-retired", "iteration": iteration, "wall": wall,
                "text": "a pool worker left its receive loop while the pool was still alive (its channel's last message was never received): workers must be kept and reused by later broadcasts: " + " ".join(msg.split())[:200]}
    if "process::abort called" in msg:
        return {"ok": False, "prop": None, "class": "abort", "iteration": iteration, "wall": wall,
                "text": "a pool worker reached its abort guard: " + msg.split(" @")[0]}
    raise Machinery("unrecognised loom failure for %s:\n%s\n%s" % (describe(sc), first, p.stderr[-1500:]))


def run(job, tier, seed, binpath, env, ncpu):
    """job: {'engine':'L','prop':..,'scenarios':[...], 'timeout':s}. Returns one result dict."""
    scenarios = job["scenarios"]
    timeout = job.get("timeout", 900)
    prop = job["prop"]
    res = {"name": "loom-" + prop, "states": 0, "transitions": 0, "traces_validated_against_impl": 0, "evaluations": 0,
           "excluded": 0, "distinct_outcomes": 0, "exhaustive": True, "samples": [], "violations": [],
           "bounds": {"scenarios": []}, "wall_s": 0.0, "_engine": {"engine": "L"}}
    t0 = time.time()
    with cf.ThreadPoolExecutor(max_workers=ncpu) as ex:
        futs = {ex.submit(run_one, dict(sc, prop=prop) if sc["kind"] in ("pool", "loop") else sc, binpath, env, timeout): sc for sc in scenarios}
        for fut in cf.as_completed(futs):
            sc = futs[fut]
            out = fut.result()
            if out["ok"]:
                r = out["result"]
                res["states"] += r["iterations"]
                res["evaluations"] += r["iterations"]
                res["traces_validated_against_impl"] += r["iterations"]
                res["transitions"] += max(r["transitions"], r["iterations"])
                res["distinct_outcomes"] += r["distinct_outcomes"]
                res["bounds"]["scenarios"].append({"scenario": describe(sc), "iterations": r["iterations"],
                                                   "preemption_bound": r["preemption_bound"],
                                                   "complete": "all interleavings" if r["preemption_bound"] is None else "all interleavings with <= %d preemptions" % r["preemption_bound"],
                                                   "distinct_outcomes": r["distinct_outcomes"], "wall_s": round(out["wall"], 2)})
                if len(res["samples"]) < 3 and r.get("sample"):
                    res["samples"].append({"scenario": describe(sc), "first_execution": r["sample"]})
                if r.get("shim"):
                    res["samples"].append({"shim_outcomes": r["shim"]})
            else:
                vprop = out["prop"] or prop
                if sc["kind"] not in ("pool", "loop"):
                    vprop = prop   # single-purpose scenarios: any failure is this check's
                if vprop != prop and not (prop == "C07" and out["class"] in ("deadlock", "abort")):
                    # another property's oracle fired inside this job: not this check's verdict
                    if not (out["prop"] is None):
                        continue
                res["violations"].append({
                    "sig": signature(sc, out["class"]),
                    "text": "%s [%s, %s]" % (out["text"], describe(sc), out["iteration"]),
                    "case": sc,
                })
    res["bounds"]["scenarios"].sort(key=lambda s: s["scenario"])
    if not res["samples"]:
        res["samples"] = [{"scenario": describe(scenarios[0])}] if scenarios else []
    res["wall_s"] = time.time() - t0
    if scenarios and res["states"] == 0 and not res["violations"]:
        raise Machinery("loom job for %s explored nothing (%d scenarios, none completed and none attributed)" % (prop, len(scenarios)))
    return [res]


def replay(body, binpath, env):
    sc = body["case"]
    obs = []
    for _ in range(2):
        out = run_one(sc, binpath, env, 3600)
        obs.append(json.dumps({k: out.get(k) for k in ("ok", "prop", "class", "text", "iteration")}, sort_keys=True))
    if obs[0] != obs[1]:
        raise Machinery("loom replay is not deterministic:\n%s\n%s" % (obs[0], obs[1]))
    out = json.loads(obs[0])
    if out["ok"]:
        return 0, []
    return 1, [{"sig": signature(sc, out["class"]), "text": out["text"] + " [" + out["iteration"] + "]", "case": sc}]
