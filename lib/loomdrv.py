"""Engine L driver. Filled in later."""


def run(job, tier, seed, binpath, env, ncpu):
    raise RuntimeError("engine L not built yet")


def replay(body, binpath, env):
    raise RuntimeError("engine L not built yet")
