#!/bin/bash
# Runs every self-made mutation in /verif/selfmut against the check(s) named by its file name prefix.
# MATRIX_SHARD=k/n restricts the run to every n-th patch starting at k (for parallel runs on separate snapshots).
cd "$(dirname "$0")/.."
SH_K=${MATRIX_SHARD%%/*}; SH_N=${MATRIX_SHARD##*/}; : ${SH_K:=0}; : ${SH_N:=1}; idx=0
for f in selfmut/*.diff; do
  idx=$((idx+1)); if [ $((idx % SH_N)) -ne $SH_K ]; then continue; fi
  b=$(basename $f .diff)
  case $b in
    revert-D1|revert-D6) ids="C05";; revert-D4|revert-D7) ids="C16";; revert-D5) ids="C08";;
    revert-D2|revert-D3) ids="C14";; revert-D8) ids="C12";; revert-D9) ids="C09";;
    c06-*) ids="C06";;
    c07-*) ids="C07";;
    c12-*) ids="C12";; c14-*) ids="C14";; c17-*) ids="C17";; c20-*) ids="C20";; c13-args-*) ids="C13";; c15-*) ids="C15";; c10-shared*) ids="C10";; c16-children*) ids="C16";;
    *) p=${b%%-*}; ids=$(echo $p | tr a-z A-Z);;
  esac
  if [ -n "$1" ] && [[ "$b" != $1 ]]; then continue; fi
  echo "== $b -> $ids"
  lib/trymut.py $f $ids 2>&1 | cut -c1-240
done
