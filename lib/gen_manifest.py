#!/usr/bin/env python3
"""Regenerates /verif/MANIFEST.json from lib/registry.py (single source of truth)."""
import json, os, subprocess, sys
ROOT = os.path.dirname(os.path.dirname(os.path.abspath(__file__)))
sys.path.insert(0, os.path.join(ROOT, "lib"))
import registry

ALL = ["C%02d" % i for i in range(1, 21)]
NOT_YET = "check not built yet in this round (work in progress; designed in DESIGN.md section 4)"

hook_commits = subprocess.run(["git", "-C", "/repo", "log", "--format=%H %s"], stdout=subprocess.PIPE, text=True).stdout
hook_commits = [l.split()[0] for l in hook_commits.splitlines() if "verif hook" in l]

checks = []
for pid in ALL:
    if pid not in registry.PROPS:
        continue
    m = registry.META[pid]
    checks.append({
        "property_id": pid,
        "quick_cmd": "./check %s --tier quick" % pid,
        "thorough_cmd": "./check %s --tier thorough" % pid,
        "evidence_file": "evidence/%s.json" % pid,
        "replay_cmd_template": "./check replay {path}",
        "engine": m["engine"],
        "level_claimed": {"category": "model_checking", "text": m["text"], "design_ref": "DESIGN.md section 4 " + pid},
        "level_note": m["note"],
        "technique": m["technique"],
    })

manifest = {
    "version": 1,
    "setup_cmd": "./check setup",
    "hooks": {
        "guard": "divan_verif",
        "enable": "RUSTFLAGS=--cfg divan_verif, set by /verif/check; /verif/harness/dut/Cargo.toml builds /repo/src (current working tree) as crate `divan` with the runtime crate harness/rt as extra dependency; loom backend = cargo feature `loom` of dut/rt",
        "baseline_off_cmd": "cd /repo && cargo nextest run --workspace --no-fail-fast --tool-config-file pb:/w/lib/nextest.toml --profile pb --test-threads 8 --offline",
        "source_commits": hook_commits,
        "add_only": True,
    },
    "engines": [
        {"name": "S", "path": "harness/mc-seq", "serves_properties": sorted(p for p in registry.PROPS if "S" in registry.META[p]["engine"]),
         "kind_free_text": "in-process bounded-exhaustive explorer on the real code (hooks on, std backend): scripted virtual TSC, mock allocator, identity-tagged values; reference-model comparison on every case; explicit-state BFS where the object has state"},
        {"name": "L", "path": "harness/mc-loom", "serves_properties": sorted(p for p in registry.PROPS if "L" in registry.META[p]["engine"]),
         "kind_free_text": "loom DPOR exploration of the real pool.rs / benchmark sample loop / alloc tally through a std facade (harness/rt/src/shim_loom.rs); every interleaving within the stated preemption bound"},
        {"name": "Z", "path": "harness/zoo-gen", "serves_properties": sorted(p for p in registry.PROPS if "Z" in registry.META[p]["engine"]),
         "kind_free_text": "generated benchmark crate (bounded grammar, exhaustively) compiled with the real macros and run as a black box under every configuration of a bounded CLI/env/builder alphabet"},
    ],
    "checks": checks,
    "not_applicable": [{"property_id": p, "reason": NOT_YET} for p in ALL if p not in registry.PROPS],
    "notes": "All checks are `./check <ID> --tier quick|thorough`; exit 0/1/2 = held / violation / machinery error. known_findings.json lists genuine defects (known or fixed).",
}
with open(os.path.join(ROOT, "MANIFEST.json"), "w") as f:
    json.dump(manifest, f, indent=1)
    f.write("\n")
print("MANIFEST.json: %d checks, %d not_applicable" % (len(checks), len(manifest["not_applicable"])))
