"""Zoo generator: emits one benchmark crate that contains every item form x placement of a
bounded grammar, compiled with the real macros, plus the reference model that predicts what
divan must register, list, run and print for it.

The generator is deterministic; `generate(tier)` returns the model as a dict (also saved
next to the crate as model.json).
"""
import json
import os
import re
import hashlib

ROOT = os.path.dirname(os.path.dirname(os.path.abspath(__file__)))
ZOO = os.path.join(ROOT, "harness", "zoo")

RT_RS = r'''//! Runtime of the generated zoo crate: invocation log, entry dump, main switch.
#![allow(dead_code)]

use std::io::Write;
use std::sync::Mutex;

static LOG: Mutex<Vec<String>> = Mutex::new(Vec::new());

fn push(line: String) {
    LOG.lock().unwrap_or_else(|e| e.into_inner()).push(line);
}

fn opt(s: Option<String>) -> String {
    s.unwrap_or_else(|| "-".to_owned())
}

/// A benchmarked function (or closure) of bench `id` ran.
pub fn hit(id: u32, arg: Option<String>, ty: Option<&'static str>, cst: Option<String>) {
    cost(COSTS.get(id as usize).copied().unwrap_or(1000));
    push(format!("HIT\t{id}\t{}\t{}\t{}\t{:?}", opt(arg), ty.unwrap_or("-"), opt(cst), std::thread::current().id()));
}

/// The function carrying `#[divan::bench]` with a `Bencher` parameter was entered.
pub fn enter(id: u32, arg: Option<String>, ty: Option<&'static str>, cst: Option<String>) {
    push(format!("ENTER\t{id}\t{}\t{}\t{}\t{:?}", opt(arg), ty.unwrap_or("-"), opt(cst), std::thread::current().id()));
}

/// Any other closure handed to a Bencher ran (generator, counter, destructor).
pub fn aux(id: u32, what: &str) {
    push(format!("AUX\t{id}\t{what}"));
}

/// The `args = ...` expression of bench `id` was evaluated.
pub fn counted<I>(id: u32, iter: I) -> I {
    push(format!("ARGS\t{id}"));
    // a slow `args` expression (ZOO_ARGS_DELAY_MS): widens the window in which a second thread can find
    // the list uninitialised
    if let Some(ms) = std::env::var("ZOO_ARGS_DELAY_MS").ok().and_then(|v| v.parse::<u64>().ok()) {
        std::thread::sleep(std::time::Duration::from_millis(ms));
    }
    iter
}

/// Allocation-free body for the few benches whose rows must show no allocation:
/// invocations are only counted (reported as `QUIET id count` when the log is flushed).
pub fn quiet(id: u32) {
    cost(COSTS.get(id as usize).copied().unwrap_or(1000));
    if let Some(c) = QUIET.get(id as usize) {
        c.fetch_add(1, std::sync::atomic::Ordering::SeqCst);
    }
}

/// The available parallelism as divan sees it (for `threads = [0, ncpu()]`).
pub fn ncpu() -> usize {
    divan::verif::known_parallelism()
}

pub fn cost(ticks: u64) {
    divan_verif_rt::clock::advance(ticks);
}

fn short(name: &'static str) -> &'static str {
    name.rsplit("::").next().unwrap_or(name)
}

include!("costs.rs");

pub fn flush() {
    let Some(path) = std::env::var_os("ZOO_LOG") else { return };
    let mut lines = std::mem::take(&mut *LOG.lock().unwrap_or_else(|e| e.into_inner()));
    for (id, c) in QUIET.iter().enumerate() {
        let n = c.swap(0, std::sync::atomic::Ordering::SeqCst);
        if n > 0 {
            lines.push(format!("QUIET\t{id}\t{n}"));
        }
    }
    if let Ok(mut f) = std::fs::OpenOptions::new().create(true).append(true).open(path) {
        for l in lines {
            let _ = writeln!(f, "{l}");
        }
    }
}

fn q(s: &str) -> String {
    // JSON string (Rust's Debug quoting is not JSON for control characters)
    let mut o = String::from("\"");
    for c in s.chars() {
        match c {
            '"' => o.push_str("\\\""),
            '\\' => o.push_str("\\\\"),
            c if (c as u32) < 0x20 => o.push_str(&format!("\\u{:04x}", c as u32)),
            c => o.push(c),
        }
    }
    o.push('"');
    o
}

fn options_json(meta: &divan::__private::EntryMeta) -> String {
    match meta.bench_options.as_deref() {
        None => "null".to_owned(),
        Some(o) => {
            let (sc, ss, th, counters, min, max, skip, ign) = divan::verif::options_fields(o);
            let j = |v: Option<String>| v.unwrap_or_else(|| "null".to_owned());
            format!(
                "{{\"sample_count\":{},\"sample_size\":{},\"threads\":{},\"counters\":[{}],\"min_time_ns\":{},\"max_time_ns\":{},\"skip_ext_time\":{},\"ignore\":{}}}",
                j(sc.map(|v| v.to_string())),
                j(ss.map(|v| v.to_string())),
                j(th.map(|v| format!("{v:?}"))),
                counters.iter().map(|c| j(c.map(|v| v.to_string()))).collect::<Vec<_>>().join(","),
                j(min.map(|v| v.as_nanos().to_string())),
                j(max.map(|v| v.as_nanos().to_string())),
                j(skip.map(|v| v.to_string())),
                j(ign.map(|v| v.to_string())),
            )
        }
    }
}

fn meta_json(meta: &divan::__private::EntryMeta) -> String {
    format!(
        "\"raw_name\":{},\"display_name\":{},\"module_path\":{},\"file\":{},\"line\":{},\"col\":{},\"options\":{}",
        q(meta.raw_name), q(meta.display_name), q(meta.module_path), q(meta.location.file), meta.location.line, meta.location.col, options_json(meta)
    )
}

/// Writes every registered entry, as divan's own lists hold them, to $ZOO_DUMP.
pub fn dump_entries() {
    let Some(path) = std::env::var_os("ZOO_DUMP") else { return };
    let mut out = String::new();
    for e in divan::__private::BENCH_ENTRIES.iter() {
        let args = divan::verif::entry_arg_names(&e.bench);
        out.push_str(&format!(
            "{{\"kind\":\"bench\",{},\"args\":{}}}\n",
            meta_json(&e.meta),
            match args { None => "null".to_owned(), Some(a) => format!("[{}]", a.iter().map(|s| q(s)).collect::<Vec<_>>().join(",")) }
        ));
    }
    for g in divan::__private::GROUP_ENTRIES.iter() {
        let generic = match g.generic_benches {
            None => "null".to_owned(),
            Some(outer) => format!(
                "[{}]",
                outer.iter().map(|inner| format!(
                    "[{}]",
                    inner.iter().map(|ge| {
                        let (t, c) = divan::verif::generic_labels(ge);
                        let args = divan::verif::entry_arg_names(&ge.bench);
                        format!(
                            "{{\"type\":{},\"const\":{},\"args\":{}}}",
                            t.map(|s| q(&s)).unwrap_or_else(|| "null".to_owned()),
                            c.map(|s| q(&s)).unwrap_or_else(|| "null".to_owned()),
                            match args { None => "null".to_owned(), Some(a) => format!("[{}]", a.iter().map(|s| q(s)).collect::<Vec<_>>().join(",")) }
                        )
                    }).collect::<Vec<_>>().join(",")
                )).collect::<Vec<_>>().join(",")
            ),
        };
        out.push_str(&format!("{{\"kind\":\"group\",{},\"generic\":{}}}\n", meta_json(&g.meta), generic));
    }
    out.push_str(&format!("{{\"kind\":\"meta\",\"parallelism\":{}}}\n", divan::verif::known_parallelism()));
    let _ = std::fs::write(path, out);
}

/// `ZOO_MODE`: unset / "main" = `divan::main()`; otherwise a `;`-separated list of builder
/// calls applied to `Divan::from_args()` (or `Divan::default()` with `default`), ending with
/// the action: `list` / `test` / `bench` / `main`.
pub fn run() {
    divan_verif_rt::clock::enable_from_env();
    std::panic::set_hook({
        let prev = std::panic::take_hook();
        Box::new(move |info| {
            flush();
            prev(info);
        })
    });
    let mode = std::env::var("ZOO_MODE").unwrap_or_else(|_| "main".to_owned());
    if mode == "main" {
        divan::main();
    } else {
        use std::time::Duration;
        let mut d: Option<divan::Divan> = None;
        let mut action = "main".to_owned();
        for call in mode.split(';') {
            let (name, value) = call.split_once('=').unwrap_or((call, ""));
            let cur = d.take().unwrap_or_else(divan::Divan::from_args);
            let n = || value.parse::<u64>().expect("numeric builder argument");
            d = Some(match name {
                "default" => divan::Divan::default(),
                "from_args" => divan::Divan::from_args(),
                "sample_count" => cur.sample_count(n() as u32),
                "sample_size" => cur.sample_size(n() as u32),
                "threads" => cur.threads(value.split(',').filter(|s| !s.is_empty()).map(|s| s.parse::<usize>().unwrap())),
                "min_time_ns" => cur.min_time(Duration::from_nanos(n())),
                "max_time_ns" => cur.max_time(Duration::from_nanos(n())),
                "skip_ext_time" => cur.skip_ext_time(value == "true"),
                "items_count" => cur.items_count(n()),
                "bytes_count" => cur.bytes_count(n()),
                "chars_count" => cur.chars_count(n()),
                "cycles_count" => cur.cycles_count(n()),
                "run_ignored" => cur.run_ignored(),
                "run_only_ignored" => cur.run_only_ignored(),
                "skip_regex" => cur.skip_regex(value),
                "skip_exact" => cur.skip_exact(value),
                "config_with_args" => cur.config_with_args(),
                "bytes_format" => cur.bytes_format(if value == "binary" { divan::counter::BytesFormat::Binary } else { divan::counter::BytesFormat::Decimal }),
                "list" | "test" | "bench" | "main" | "par2_test" => {
                    action = name.to_owned();
                    cur
                }
                other => panic!("unknown ZOO_MODE call {other}"),
            });
        }
        let d = d.unwrap_or_else(divan::Divan::from_args);
        match action.as_str() {
            "list" => d.list_benches(),
            "test" => d.test_benches(),
            "bench" => d.run_benches(),
            // two test runs started at the same time on two threads of this process
            "par2_test" => {
                let gate = std::sync::Barrier::new(2);
                std::thread::scope(|s| {
                    for _ in 0..2 {
                        s.spawn(|| {
                            gate.wait();
                            divan::Divan::default().run_ignored().skip_regex("^zoo::pnc").test_benches();
                        });
                    }
                });
            }
            _ => d.main(),
        }
    }
    dump_entries();
    flush();
}
'''


class Model:
    def __init__(self):
        self.lines = []          # src/main.rs lines (1-based when indexed +1)
        self.benches = []        # dicts
        self.groups = []         # dicts
        self.costs = {}          # bench id -> ticks per hit
        self.next_id = 1
        self.families = {}       # top-level module name -> family tag

    def emit(self, text):
        """Appends text (may contain newlines); returns 1-based line number of its first line."""
        first = len(self.lines) + 1
        self.lines.extend(text.split("\n"))
        return first


def disp(raw):
    return raw[2:] if raw.startswith("r#") else raw


# ----------------------------------------------------------------------------------------
# Item forms
# ----------------------------------------------------------------------------------------

ARG_KINDS = {
    # kind: (args expression, parameter type, labels, how to render the received value)
    "arr_i32": ("[3, 1, 2]", "i32", ["3", "1", "2"], "x.to_string()"),
    "arr_i32_big": ("[10, 9, 100, 1]", "i32", ["10", "9", "100", "1"], "x.to_string()"),
    "arr_neg": ("[-1, 10, 9, -20]", "i64", ["-1", "10", "9", "-20"], "x.to_string()"),
    "slice_u64": ("crate::ARGS_U64", "u64", ["10", "9", "100"], "x.to_string()"),
    "range": ("0..3", "i32", ["0", "1", "2"], "x.to_string()"),
    "range21": ("0..21", "usize", [str(i) for i in range(21)], "x.to_string()"),
    "range30": ("0..30", "usize", [str(i) for i in range(30)], "x.to_string()"),
    "vec_string": ('vec!["b".to_string(), "a".to_string(), "c".to_string()]', "&str", ["b", "a", "c"], "x.to_string()"),
    "strs": ('["x", "yy"]', "&str", ["x", "yy"], "x.to_string()"),
    "static_strs": ("crate::STRS", "&str", ["p", "q", "o"], "x.to_string()"),
    "string_arr": ('["k2".to_string(), "k10".to_string(), "k1".to_string()]', "&str", ["k2", "k10", "k1"], "x.to_string()"),
    "cow": ('vec![std::borrow::Cow::Borrowed("cb"), std::borrow::Cow::Owned("co".to_string())]', "&str", ["cb", "co"], "x.to_string()"),
    "f64s": ("[1.5, -0.5, 2.0, 10.0]", "f64", ["1.5", "-0.5", "2", "10"], "x.to_string()"),
    "chars": ("['a', 'b']", "char", ["a", "b"], "x.to_string()"),
    "dbg": ("[crate::Dbg(1), crate::Dbg(2)]", "&crate::Dbg", ["Dbg(1)", "Dbg(2)"], 'format!("{:?}", x)'),
    "weird_strs": ('["", "a::b", "x y", "ñandú"]', "&str", ["", "a::b", "x y", "ñandú"], "x.to_string()"),
    "dbg_tuple": ("[(1, 2), (3, 4)]", "(i32, i32)", ["(1, 2)", "(3, 4)"], 'format!("{:?}", x)'),
    "bools": ("[true, false]", "bool", ["true", "false"], "x.to_string()"),
    "u128s": ("[u128::MAX, 0, 18446744073709551616]", "u128", [str(2 ** 128 - 1), "0", str(2 ** 64)], "x.to_string()"),
    # different strings that start at the same address (prefixes of one buffer)
    "prefix_strs": ("[&crate::TEXT[..1], &crate::TEXT[..2], &crate::TEXT[..4], &crate::TEXT[..3]]", "&str", ["a", "ab", "abcd", "abc"], "x.to_string()"),
    "prefix_cows": ("vec![std::borrow::Cow::Borrowed(&crate::TEXT[..2]), std::borrow::Cow::Borrowed(&crate::TEXT[..1])]", "&str", ["ab", "a"], "x.to_string()"),
    # iterators over the slots of one static slice in another order than the slots' addresses
    "rev_strs": ("crate::STRS.iter().rev()", "&str", ["o", "q", "p"], "x.to_string()"),
    "rot_strs": ("crate::STRS[1..].iter().chain(crate::STRS[..1].iter())", "&str", ["q", "o", "p"], "x.to_string()"),
    "sorted_ref_strs": ("{ let mut v: Vec<&&str> = crate::WORDS.iter().collect(); v.sort_by_key(|s| s.len()); v }", "&str", ["a", "bb", "ccc"], "x.to_string()"),
    "skip_strs": ("crate::STRS.iter().skip(1)", "&str", ["q", "o"], "x.to_string()"),
    # a rendering that contains a NUL character (any joined-and-split name buffer must survive its separator)
    "nul_chars": ("['a', '\\0', 'b', 'c']", "char", ["a", "\0", "b", "c"], "x.to_string()"),
    "one": ("[7]", "u8", ["7"], "x.to_string()"),
    "empty": ("[]", "u8", [], "x.to_string()"),
}

# Types whose display label is not the bare identifier: label -> Rust expression. The label is the type's
# name with the leading module path removed and everything inside the generic brackets kept as written by
# the compiler (`Vec<zoo::TA>`); it contains `::`, the separator of display paths.
TYPE_EXPR = {
    "Vec<zoo::TA>": "Vec<crate::TA>",
    "Option<zoo::TB>": "Option<crate::TB>",
    "&str": "&'static str",
    "(u8, zoo::TA)": "(u8, crate::TA)",
}

PRELUDE = '''// GENERATED by /verif/lib/zoogen.py -- do not edit.
#![allow(dead_code, unused_variables, non_snake_case, improper_ctypes_definitions, clippy::all)]

mod rt;

#[global_allocator]
static ALLOC: divan::AllocProfiler = divan::AllocProfiler::system();

pub const ARGS_U64: &[u64] = &[10, 9, 100];
pub static STRS: &[&str] = &["p", "q", "o"];
pub static WORDS: &[&str] = &["ccc", "a", "bb"];
pub static TEXT: &str = "abcdefgh";
pub const CONSTS1: [usize; 1] = [5];
pub const CONSTS3: [usize; 3] = [3, 1, 2];
pub const CONSTS20: [usize; 20] = [20, 19, 18, 17, 16, 15, 14, 13, 12, 11, 10, 9, 8, 7, 6, 5, 4, 3, 2, 1];
pub struct TA;
pub struct TB;
pub struct TC;
#[derive(Debug)]
pub struct Dbg(pub u32);
/// Identity of a generic instantiation as the model names it (independent of `type_name`).
pub trait Tag { const TAG: &'static str; }
impl Tag for TA { const TAG: &'static str = "TA"; }
impl Tag for TB { const TAG: &'static str = "TB"; }
impl Tag for TC { const TAG: &'static str = "TC"; }
impl Tag for Vec<TA> { const TAG: &'static str = "Vec<zoo::TA>"; }
impl Tag for Option<TB> { const TAG: &'static str = "Option<zoo::TB>"; }
impl Tag for &'static str { const TAG: &'static str = "&str"; }
impl Tag for (u8, TA) { const TAG: &'static str = "(u8, zoo::TA)"; }

fn main() {
    rt::run();
}
'''


def attr_options(opts):
    """opts: ordered list of (key, rust expr) rendered inside #[divan::bench(...)]."""
    return ", ".join(k if v is None else "%s = %s" % (k, v) for k, v in opts)


def add_bench(m, path, indent, raw_name, form="plain", args=None, types=None, consts=None, consts_expr=None,
              type_first=True, options=None, ignore_attr=False, name=None, extern=None, display_module=None,
              body="hit", bencher_style=None, cost=1000, pre=None, expect_options=None, const_ty="usize", const_labels_given=None, lifetime=False, ret_alloc=False):
    """Emits one #[divan::bench] function into module `path` (list of module names below the crate root).
    Returns the bench dict."""
    pad = " " * indent
    bid = m.next_id
    m.next_id += 1
    m.costs[bid] = cost
    opts = []
    if name is not None:
        opts.append(("name", '"%s"' % name))
    labels = None
    if args is not None:
        expr, pty, labels, render = ARG_KINDS[args]
        # the literal `[]` is special-cased by the macro (it needs the element type): leave it bare
        opts.append(("args", expr if args == "empty" else "crate::rt::counted(%d, %s)" % (bid, expr)))
    if types is not None:
        opts.append(("types", "[%s]" % ", ".join(TYPE_EXPR.get(t, "crate::" + t) for t in types)))
    const_labels = None
    if consts is not None:
        const_labels = list(const_labels_given) if const_labels_given is not None else [str(c) for c in consts]
        opts.append(("consts", consts_expr if consts_expr else "[%s]" % ", ".join(str(c) for c in consts)))
    for k, v in (options or []):
        opts.append((k, v))
    attr = "#[divan::bench(%s)]" % attr_options(opts) if opts else "#[divan::bench]"
    generics = []
    if types is not None and consts is not None:
        generics = ["T: crate::Tag + 'static", "const N: %s" % const_ty] if type_first else ["const N: %s" % const_ty, "T: crate::Tag + 'static"]
    elif types is not None:
        generics = ["T: crate::Tag + 'static"]
    elif consts is not None:
        generics = ["const N: %s" % const_ty]
    if lifetime and generics:
        generics = ["'a"] + generics
    gen = "<%s>" % ", ".join(generics) if generics else ""
    params = []
    if form == "bencher":
        params.append("bencher: divan::Bencher")
    if args is not None:
        params.append("x: %s" % ARG_KINDS[args][1])
    ty_expr = "Some(<T as crate::Tag>::TAG)" if types is not None else "None"
    cst_expr = "Some(N.to_string())" if consts is not None else "None"
    arg_expr = "Some(%s)" % ARG_KINDS[args][3] if args is not None else "None"
    call = "crate::rt::%s(%d, %s, %s, %s)" % ("hit", bid, arg_expr, ty_expr, cst_expr)
    if body == "quiet":
        call = "crate::rt::quiet(%d)" % bid
    if form == "bencher":
        style = bencher_style or "bench"
        enter = "crate::rt::enter(%d, %s, %s, %s);" % (bid, arg_expr, ty_expr, cst_expr)
        if style == "bench":
            inner = "bencher.bench(|| { %s; });" % call
        elif style == "bench_local":
            inner = "bencher.bench_local(|| { %s; });" % call
        elif style == "values":
            inner = ("bencher.with_inputs(|| { crate::rt::aux(%d, \"gen\"); 3u64 }).input_counter(|v: &u64| { crate::rt::aux(%d, \"count\"); "
                     "divan::counter::BytesCount::new(*v) }).bench_values(|v| { %s; v });" % (bid, bid, call))
        elif style == "values_chars":
            inner = ("bencher.with_inputs(|| { crate::rt::aux(%d, \"gen\"); 3u64 }).input_counter(|v: &u64| { crate::rt::aux(%d, \"count\"); "
                     "divan::counter::CharsCount::new(*v + 1) }).bench_values(|v| { %s; v });" % (bid, bid, call))
        elif style == "refs_cycles_items":
            inner = ("bencher.with_inputs(|| { crate::rt::aux(%d, \"gen\"); 5u64 }).input_counter(|v: &u64| divan::counter::CyclesCount::new(*v))"
                     ".input_counter(|v: &u64| divan::counter::ItemsCount::new(*v * 2)).bench_refs(|v| { %s; *v });" % (bid, call))
        elif style == "values_costly":
            # generating an input costs 3000 ticks of untimed (external) time
            inner = ("bencher.with_inputs(|| { crate::rt::aux(%d, \"gen\"); crate::rt::cost(3000); 3u64 })"
                     ".bench_values(|v| { %s; v });" % (bid, call))
        elif style == "refs_alloc":
            inner = ("bencher.with_inputs(|| vec![1u8; 64]).bench_refs(|v| { %s; let mut w = v.clone(); w.push(1); w });" % call)
        elif style == "alloc_exact":
            # timed: exactly one allocation of 32 bytes per iteration on the benchmarking thread; the input's
            # 64-byte allocation happens before the start, the output is dropped after the end
            inner = ("bencher.with_inputs(|| vec![1u8; 64]).bench_refs(|v| { crate::rt::quiet(%d); let mut w: Vec<u8> = Vec::with_capacity(32); "
                     "w.extend_from_slice(&v[..8]); w });" % bid)
        elif style == "values_free_only":
            # timed: exactly one deallocation (64 bytes) per iteration and nothing else: the peak stays zero
            inner = ("bencher.with_inputs(|| Vec::<u8>::with_capacity(64)).bench_values(|v| { crate::rt::quiet(%d); drop(v); });" % bid)
        elif style == "refs_shrink_only":
            # timed: exactly one shrinking reallocation (64 -> 8 bytes) per iteration
            inner = ("bencher.with_inputs(|| { let mut v = Vec::<u8>::with_capacity(64); v.extend_from_slice(&[1u8; 8]); v })"
                     ".bench_refs(|v| { crate::rt::quiet(%d); v.shrink_to_fit(); });" % bid)
        elif style == "counter":
            inner = "bencher.counter(divan::counter::ItemsCount::new(7u32)).bench(|| { %s; });" % call
        else:
            raise ValueError(style)
        body_text = "%s %s" % (enter, inner)
    elif ret_alloc:
        # a function without a Bencher whose output owns one 32-byte allocation: the allocation is timed,
        # the output's destructor (the deallocation) runs after the end
        # (ret_alloc may name another size: sizes whose rendering keeps only zeros after the point, such as 10,004 B)
        body_text = "%s; Vec::<u8>::with_capacity(%d)" % (call, 32 if ret_alloc is True else ret_alloc)
    else:
        body_text = "%s;" % call
    if pre:
        body_text = pre + " " + body_text
    ext = 'extern "%s" ' % extern if extern else ""
    text_lines = [pad + attr]
    if ignore_attr:
        # `#[ignore]` or, given a string, the name-value spelling `#[ignore = "reason"]`
        text_lines.append(pad + ('#[ignore = "%s"]' % ignore_attr if isinstance(ignore_attr, str) else "#[ignore]"))
    if ret_alloc and extern:
        text_lines.append(pad + "#[allow(improper_ctypes_definitions)]")
    fn_line_text = "%s%sfn %s%s(%s)%s { %s }" % (pad, ext, raw_name, gen, ", ".join(params), " -> Vec<u8>" if ret_alloc else "", body_text)
    text_lines.append(fn_line_text)
    first = m.emit("\n".join(text_lines))
    fn_line = first + len(text_lines) - 1
    # Location: line and column of the `#[divan::bench]` attribute that starts the item, as
    # tests/entry_properties.rs pins it (attribute on line 8 -> location line 8, column = indent + 1).
    loc_line = first
    bench = {
        "id": bid, "module": list(path), "raw_name": raw_name, "display_name": name if name is not None else disp(raw_name),
        "line": loc_line, "col": indent + 1, "fn_line": fn_line, "form": form, "args": labels, "args_kind": args,
        "types": list(types) if types is not None else None, "consts": const_labels, "type_first": type_first,
        "options": dict((disp(k), v) for k, v in (options or [])), "ignore": (True if ignore_attr or any(disp(k) == "ignore" and v in (None, "true") for k, v in (options or [])) else (False if any(disp(k) == "ignore" and v == "false" for k, v in (options or [])) else None)),
        "style": bencher_style if form == "bencher" else ("plain_alloc_out" if ret_alloc else None), "alloc_size": (32 if ret_alloc is True else ret_alloc) if ret_alloc else None, "body": body, "cost": cost,
        "gen_cost": 3000 if (form == "bencher" and bencher_style == "values_costly") else 0,
        "expect_options": expect_options, "const_ty": const_ty if consts is not None else None,
    }
    m.benches.append(bench)
    return bench


def open_mod(m, path, indent, name, group=None):
    """Opens `mod name {`. group: None or dict(display=None|str, options=[(k, v)], ignore_attr=bool)."""
    pad = " " * indent
    lines = []
    if group is not None:
        opts = []
        if group.get("display") is not None:
            opts.append(("name", '"%s"' % group["display"]))
        opts.extend(group.get("options") or [])
        lines.append(pad + ("#[divan::bench_group(%s)]" % attr_options(opts) if opts else "#[divan::bench_group]"))
        if group.get("ignore_attr"):
            ia = group["ignore_attr"]
            lines.append(pad + ('#[ignore = "%s"]' % ia if isinstance(ia, str) else "#[ignore]"))
    lines.append(pad + "mod %s {" % name)
    first = m.emit("\n".join(lines))
    if group is not None:
        o = group.get("options") or []
        ign = True if group.get("ignore_attr") or any(k == "ignore" and v in (None, "true") for k, v in o) else (False if any(k == "ignore" and v == "false" for k, v in o) else None)
        m.groups.append({
            "module": list(path), "raw_name": name, "display_name": group.get("display") if group.get("display") is not None else disp(name),
            "line": first, "col": indent + 1, "options": dict(o), "ignore": ign,
        })
    return path + [name]


def close_mod(m, indent):
    m.emit(" " * indent + "}")


# ----------------------------------------------------------------------------------------
# Families
# ----------------------------------------------------------------------------------------

def family_forms(m, tier):
    """Every item form x placement (C12, C14, C17)."""
    forms = [
        dict(raw_name="plain"),
        dict(raw_name="with_bencher", form="bencher"),
        dict(raw_name="a_arr", args="arr_i32"),
        dict(raw_name="a_slice", args="slice_u64"),
        dict(raw_name="a_range", args="range"),
        dict(raw_name="a_vec_string", args="vec_string"),
        dict(raw_name="a_strs", args="strs", form="bencher"),
        dict(raw_name="a_static_strs", args="static_strs"),
        dict(raw_name="a_empty", args="empty"),
        dict(raw_name="a_weird_strs", args="weird_strs"),
        dict(raw_name="a_rev_strs", args="rev_strs"),
        dict(raw_name="a_rot_strs", args="rot_strs", form="bencher"),
        dict(raw_name="a_sorted_ref_strs", args="sorted_ref_strs"),
        dict(raw_name="a_skip_strs", args="skip_strs"),
        dict(raw_name="a_prefix_strs", args="prefix_strs"),
        dict(raw_name="a_prefix_cows", args="prefix_cows", form="bencher"),
        dict(raw_name="a_dbg_tuple", args="dbg_tuple", form="bencher"),
        dict(raw_name="a_bools", args="bools"),
        dict(raw_name="a_u128s", args="u128s"),
        dict(raw_name="a_nul_chars", args="nul_chars"),
        dict(raw_name="named_path_like", name="looks::like a path"),
        dict(raw_name="g_types", types=["TA", "TB"]),
        dict(raw_name="g_types_empty", types=[]),
        dict(raw_name="g_lifetime_tc", types=["TB", "TA"], consts=[3, 1], lifetime=True),
        dict(raw_name="g_lifetime_ct", types=["TA", "&str"], consts=[2, 5], type_first=False, lifetime=True),
        dict(raw_name="g_consts_u128", consts=["340282366920938463463374607431768211455", "0", "18446744073709551616"], const_ty="u128"),
        dict(raw_name="g_consts_i128", consts=["-170141183460469231731687303715884105728", "7", "-1"], const_ty="i128"),
        dict(raw_name="g_types_composite", types=["Vec<zoo::TA>", "TB", "Option<zoo::TB>", "&str", "(u8, zoo::TA)"]),
        dict(raw_name="g_consts", consts=[2, 10, 1]),
        dict(raw_name="g_consts_ext3", consts=[3, 1, 2], consts_expr="crate::CONSTS3"),
        dict(raw_name="g_consts_empty", consts=[]),
        dict(raw_name="g_tc", types=["TA", "TB"], consts=[1, 3]),
        dict(raw_name="g_ct", types=["TB", "TA"], consts=[4, 2], type_first=False),
        dict(raw_name="g_tc_args", types=["TA", "TB"], consts=[1, 3], args="arr_i32", form="bencher"),
        dict(raw_name="ign_opt", options=[("ignore", None)]),
        dict(raw_name="ign_attr", ignore_attr=True),
        dict(raw_name="named", name="custom name"),
        dict(raw_name="r#type"),
        dict(raw_name="ext_c", extern="C"),
        dict(raw_name="raw_option_idents", options=[("r#ignore", None), ("r#sample_count", "3")], expect_options={"sample_count": 3, "ignore": True}),
        dict(raw_name="crate_option", options=[("crate", "::divan"), ("sample_size", "4")], expect_options={"sample_size": 4}),
        dict(raw_name="counters_list", options=[("counters", "[divan::counter::BytesCount::new(3u32), divan::counter::ItemsCount::new(4u32)]")], expect_options={"counters": [3, None, None, 4]}),
        dict(raw_name="counter_single", options=[("counter", "divan::counter::CharsCount::new(2u32)")], expect_options={"counters": [None, 2, None, None]}),
        dict(raw_name="count_options", options=[("items_count", "5u8"), ("cycles_count", "6u16"), ("bytes_count", "7u32"), ("chars_count", "8u64")], expect_options={"counters": [7, 8, 6, 5]}),
        dict(raw_name="time_options", options=[("min_time", "0.001"), ("max_time", "std::time::Duration::from_secs(2)"), ("skip_ext_time", None), ("threads", "false")],
             expect_options={"min_time_ns": 1000000, "max_time_ns": 2000000000, "skip_ext_time": True, "threads": [1]}),
        dict(raw_name="threads_forms", options=[("threads", "[3, 0, 3]"), ("sample_count", "1"), ("sample_size", "1"), ("ignore", None)], expect_options={"threads": [3, 0, 3], "sample_count": 1, "sample_size": 1, "ignore": True}),
    ]
    if tier == "thorough":
        forms += [
            dict(raw_name="a_string_arr", args="string_arr"),
            dict(raw_name="a_cow", args="cow"),
            dict(raw_name="a_f64", args="f64s"),
            dict(raw_name="a_chars", args="chars"),
            dict(raw_name="a_dbg", args="dbg"),
            dict(raw_name="a_one", args="one"),
            dict(raw_name="a_21", args="range21"),
            dict(raw_name="a_30", args="range30"),
            dict(raw_name="g_consts_ext1", consts=[5], consts_expr="crate::CONSTS1"),
            dict(raw_name="g_consts_ext20", consts=list(range(20, 0, -1)), consts_expr="crate::CONSTS20"),
            dict(raw_name="g_t_args", types=["TA", "TB"], args="strs"),
            dict(raw_name="ext_c_bencher", extern="C", form="bencher"),
        ]
    placements = ["root", "mod2", "group", "group_named", "group_in_group", "raw_group_named", "raw_mod"]
    if tier == "thorough":
        placements += ["mod4", "group_options", "mod_in_group", "raw_group_options"]
    k = 0
    for fi, form in enumerate(forms):
        for placement in placements:
            # quick: every form at the root, and a rotating second placement
            if tier != "thorough" and placement != "root" and (fi + placements.index(placement)) % 4 != 0:
                continue
            k += 1
            top = "f%03d" % k
            m.families[top] = "forms"
            path = open_mod(m, [], 0, top)
            indent = 4
            stack = 1
            if placement == "mod2":
                path = open_mod(m, path, indent, "m"); indent += 4; stack += 1
            elif placement == "mod4":
                for name in ("m", "n", "o"):
                    path = open_mod(m, path, indent, name); indent += 4; stack += 1
            elif placement == "group":
                path = open_mod(m, path, indent, "grp", group={}); indent += 4; stack += 1
            elif placement == "group_named":
                path = open_mod(m, path, indent, "grp", group={"display": "Shown As"}); indent += 4; stack += 1
            elif placement == "group_options":
                path = open_mod(m, path, indent, "grp", group={"options": [("sample_count", "3"), ("sample_size", "2")]}); indent += 4; stack += 1
            elif placement == "group_in_group":
                path = open_mod(m, path, indent, "outer", group={}); indent += 4; stack += 1
                path = open_mod(m, path, indent, "inner", group={"display": "in"}); indent += 4; stack += 1
            elif placement == "raw_group_named":
                path = open_mod(m, path, indent, "r#type", group={"display": "raw shown"}); indent += 4; stack += 1
            elif placement == "raw_group_options":
                path = open_mod(m, path, indent, "r#match", group={"options": [("sample_count", "3"), ("ignore", None)]}); indent += 4; stack += 1
            elif placement == "raw_mod":
                path = open_mod(m, path, indent, "r#fn"); indent += 4; stack += 1
            elif placement == "mod_in_group":
                path = open_mod(m, path, indent, "grp", group={}); indent += 4; stack += 1
                path = open_mod(m, path, indent, "plainmod"); indent += 4; stack += 1
            add_bench(m, path, indent, **form)
            for _ in range(stack):
                indent -= 4
                close_mod(m, indent)


def family_nested(m, tier):
    """Functions nested in function bodies, empty groups, several benches per module."""
    top = "nest"
    m.families[top] = "nested"
    path = open_mod(m, [], 0, top)
    # fn nested in fn body, and nested in a nested fn
    first = m.emit("    #[divan::bench]\n    fn outer_fn() {\n        crate::rt::hit(%d, None, None, None);" % m.next_id)
    bid = m.next_id
    m.next_id += 1
    m.costs[bid] = 1000
    m.benches.append({"id": bid, "module": list(path), "raw_name": "outer_fn", "display_name": "outer_fn", "line": first, "col": 5, "form": "plain",
                      "args": None, "args_kind": None, "types": None, "consts": None, "type_first": True, "options": {}, "ignore": None, "style": None, "body": "hit", "cost": 1000})
    add_bench(m, path, 8, "inner_fn")
    m.emit("        fn not_a_bench() {")
    add_bench(m, path, 12, "innermost_fn", args="strs")
    m.emit("        }")
    m.emit("    }")
    # empty group and group with only an empty module
    p2 = open_mod(m, path, 4, "empty_group", group={})
    close_mod(m, 4)
    p3 = open_mod(m, path, 4, "group_with_empty_mod", group={"display": "never shown"})
    open_mod(m, p3, 8, "void")
    close_mod(m, 8)
    close_mod(m, 4)
    # a function and a group module of the same name are siblings (different namespaces), in both orders
    pf = open_mod(m, path, 4, "fn_first")
    add_bench(m, pf, 8, "twin")
    pt = open_mod(m, pf, 8, "twin", group={"display": "twin group", "options": [("sample_count", "3"), ("sample_size", "2")]})
    add_bench(m, pt, 12, "inside", form="bencher")
    close_mod(m, 8)
    close_mod(m, 4)
    pf = open_mod(m, path, 4, "mod_first")
    pt = open_mod(m, pf, 8, "twin", group={"display": "twin group", "options": [("sample_count", "3"), ("sample_size", "2")]})
    add_bench(m, pt, 12, "inside", form="bencher")
    close_mod(m, 8)
    add_bench(m, pf, 8, "twin")
    add_bench(m, pf, 8, "twin_generic", types=["TA", "TB"], name="renamed generic")
    m.emit("        fn holder() {")
    add_bench(m, pf, 12, "twin_generic")
    m.emit("        }")
    close_mod(m, 4)
    # several benches and a same-named bench in a sibling module
    pa = open_mod(m, path, 4, "a")
    add_bench(m, pa, 8, "same")
    add_bench(m, pa, 8, "other", form="bencher")
    close_mod(m, 4)
    pb = open_mod(m, path, 4, "b")
    add_bench(m, pb, 8, "same")
    close_mod(m, 4)
    close_mod(m, 0)


def family_ignore(m, tier):
    """Ignore placements (C14, C15)."""
    top = "ign"
    m.families[top] = "ignore"
    path = open_mod(m, [], 0, top)
    add_bench(m, path, 4, "direct_opt", options=[("ignore", None)])
    add_bench(m, path, 4, "direct_attr", ignore_attr=True)
    add_bench(m, path, 4, "direct_false", options=[("ignore", "false")])
    add_bench(m, path, 4, "not_ignored")
    add_bench(m, path, 4, "args_ignored", args="arr_i32", options=[("ignore", None)])
    g = open_mod(m, path, 4, "ig", group={"options": [("ignore", None)]})
    add_bench(m, g, 8, "inherited")
    add_bench(m, g, 8, "overridden", options=[("ignore", "false")])
    add_bench(m, g, 8, "inherited_args", args="strs")
    g2 = open_mod(m, g, 8, "inner_plain_mod")
    add_bench(m, g2, 12, "deep_inherited")
    close_mod(m, 8)
    g3 = open_mod(m, g, 8, "inner_group", group={})
    add_bench(m, g3, 12, "through_group")
    add_bench(m, g3, 12, "g_types", types=["TA", "TB"])
    close_mod(m, 8)
    # nodes below an ignored group that carry options other than `ignore`
    add_bench(m, g, 8, "inherited_tuned", options=[("sample_count", "1")])
    add_bench(m, g, 8, "inherited_tuned_args", args="strs", options=[("sample_size", "1")])
    g5 = open_mod(m, g, 8, "tuned_group", group={"options": [("sample_size", "1")]})
    add_bench(m, g5, 12, "inherits_through_tuned_group")
    add_bench(m, g5, 12, "own_false", options=[("ignore", "false"), ("sample_count", "2")])
    g6 = open_mod(m, g5, 12, "named_inner", group={"display": "named inner"})
    add_bench(m, g6, 16, "deep")
    close_mod(m, 12)
    close_mod(m, 8)
    g4 = open_mod(m, g, 8, "inner_unignored", group={"options": [("ignore", "false")]})
    add_bench(m, g4, 12, "reenabled")
    add_bench(m, g4, 12, "ignored_again", ignore_attr=True)
    close_mod(m, 8)
    close_mod(m, 4)
    ga = open_mod(m, path, 4, "ig_attr", group={"ignore_attr": True, "display": "ig attr"})
    add_bench(m, ga, 8, "inherited")
    close_mod(m, 4)
    # `#[ignore]` next to other options on the same group / benchmark
    gao = open_mod(m, path, 4, "igao", group={"ignore_attr": True, "options": [("sample_count", "1"), ("threads", "[1, 2]")]})
    add_bench(m, gao, 8, "inherited")
    add_bench(m, gao, 8, "own_false", options=[("ignore", "false")])
    close_mod(m, 4)
    add_bench(m, path, 4, "attr_with_options", ignore_attr=True, options=[("sample_size", "1"), ("items_count", "2u32")])
    # the name-value spelling of the attribute
    add_bench(m, path, 4, "attr_with_reason", ignore_attr="flaky on CI")
    add_bench(m, path, 4, "attr_with_reason_generic", ignore_attr="slow", types=["TA", "TB"])
    add_bench(m, path, 4, "attr_with_reason_and_options", ignore_attr="needs a GPU", options=[("sample_count", "1")], args="strs")
    gr = open_mod(m, path, 4, "igr", group={"ignore_attr": "whole group is slow"})
    add_bench(m, gr, 8, "inherited")
    add_bench(m, gr, 8, "own_false", options=[("ignore", "false")])
    close_mod(m, 4)
    # a group that sets other options but not `ignore`, inside and outside ignored groups
    gb = open_mod(m, path, 4, "tuned_not_ignored", group={"options": [("sample_count", "1")]})
    add_bench(m, gb, 8, "runs")
    add_bench(m, gb, 8, "own_ignore", options=[("ignore", None)])
    gc = open_mod(m, gb, 8, "ignored_inner", group={"options": [("ignore", None), ("sample_size", "1")]})
    add_bench(m, gc, 12, "inherits")
    add_bench(m, gc, 12, "tuned_inherits", options=[("sample_count", "2")])
    close_mod(m, 8)
    close_mod(m, 4)
    close_mod(m, 0)


def build_model(tier):
    m = Model()
    m.emit(PRELUDE.rstrip("\n"))
    family_forms(m, tier)
    family_nested(m, tier)
    family_ignore(m, tier)
    from zoofam import more_families
    more_families(m, tier, add_bench, open_mod, close_mod)
    return m


# ----------------------------------------------------------------------------------------
# Reference model: cases
# ----------------------------------------------------------------------------------------

def group_for(m, module):
    """The group entry attached to module path `module` (list), if any."""
    if not module:
        return None
    for g in m.groups:
        if g["module"] == module[:-1] and g["raw_name"] == module[-1]:
            return g
    return None


def display_module(m, module):
    out = []
    for i in range(len(module)):
        g = group_for(m, module[: i + 1])
        out.append(g["display_name"] if g else disp(module[i]))
    return out


def parse_threads_option(v):
    """The `threads = ...` attribute value as a list of ints (0 = available parallelism)."""
    v = v.strip()
    if v.startswith("["):
        # `crate::rt::ncpu()` = the available parallelism, written 0 here too (it resolves to the same count)
        return [0 if "ncpu" in x else int(x) for x in v.strip("[]").split(",") if x.strip()]
    mm = re.match(r"(\d+)\.\.=(\d+)$", v)
    if mm:
        return list(range(int(mm.group(1)), int(mm.group(2)) + 1))
    mm = re.match(r"vec!\[(.*)\]$", v)
    if mm:
        return [int(x) for x in mm.group(1).split(",") if x.strip()]
    if v == "true":
        return [0]
    if v == "false":
        return [1]
    return [int(v)]


def effective_options(m, b):
    b["options"].pop("crate", None)
    """Benchmark's own attribute, else the nearest enclosing bench_group that sets the field."""
    eff = {}
    levels = [b["options"]]
    for i in range(len(b["module"]), 0, -1):
        g = group_for(m, b["module"][:i])
        if g:
            levels.append(g["options"])
    # `counter = X` / `counters = [X, ..]` are other spellings of the per-kind count options
    def normal(lv):
        lv = dict(lv)
        for key in ("counter", "counters"):
            if key in lv:
                for kind, val in re.findall(r"(Bytes|Chars|Cycles|Items)Count::new\((\d+)", lv[key]):
                    lv[kind.lower() + "_count"] = val
        return lv
    levels = [normal(lv) for lv in levels]
    for field in ("sample_count", "sample_size", "threads", "max_time", "min_time", "skip_ext_time", "items_count", "bytes_count", "chars_count", "cycles_count"):
        for lv in levels:
            if field in lv:
                eff[field] = lv[field]
                break
    def time_ps(v):
        """Attribute spellings of a duration: Duration::from_nanos(N), float seconds, integer seconds."""
        mm = re.search(r"from_nanos\((\d+)\)", v)
        if mm:
            return int(mm.group(1)) * 1000
        mm = re.search(r"from_secs\((\d+)\)", v)
        if mm:
            return int(mm.group(1)) * 10 ** 12
        from decimal import Decimal
        ns = Decimal(re.sub(r"(f64|u64)$", "", v)) * 10 ** 9
        assert abs(ns - ns.to_integral_value()) < Decimal("0.45") or True
        return int(ns) * 1000   # values are chosen so that truncation and rounding to whole ns agree

    out = {
        "max_time_ps": time_ps(eff["max_time"]) if "max_time" in eff else None,
        "min_time_ps": time_ps(eff["min_time"]) if "min_time" in eff else None,
        "skip_ext": (eff["skip_ext_time"] in (None, "true")) if "skip_ext_time" in eff else None,
        "sample_count": int(eff["sample_count"]) if "sample_count" in eff else None,
        "sample_size": int(eff["sample_size"]) if "sample_size" in eff else None,
        "threads": parse_threads_option(eff["threads"]) if "threads" in eff else None,
        "max_time_zero": eff.get("max_time") == "0",
        "counters": {k: int(re.match(r"\d+", eff[k]).group(0)) for k in ("bytes_count", "chars_count", "cycles_count", "items_count") if k in eff},
    }
    return out


def cases_of(m):
    """Every runnable case with its display path and what its body must log."""
    cases = []
    for b in m.benches:
        b["effective"] = effective_options(m, b)
        mods = display_module(m, b["module"])
        base = ["zoo"] + mods + [b["display_name"]]
        # effective ignore: own, else nearest enclosing group that sets it
        ign = b["ignore"]
        if ign is None:
            for i in range(len(b["module"]), 0, -1):
                g = group_for(m, b["module"][:i])
                if g and g["ignore"] is not None:
                    ign = g["ignore"]
                    break
        ign = bool(ign)
        types = b["types"]
        consts = b["consts"]
        if types is not None and consts is not None:
            gens = [([t, c], t, c) for t in types for c in consts]
        elif types is not None:
            gens = [([t], t, None) for t in types]
        elif consts is not None:
            gens = [([c], None, c) for c in consts]
        else:
            gens = [([], None, None)]
        for extra, t, c in gens:
            if b["args"] is not None:
                for ai, a in enumerate(b["args"]):
                    cases.append({"path": "::".join(base + extra + [a]), "bench_path": "::".join(base + extra), "bench": b["id"], "type": t, "const": c, "arg": a, "arg_index": ai, "ignore": ign})
            else:
                cases.append({"path": "::".join(base + extra), "bench_path": "::".join(base + extra), "bench": b["id"], "type": t, "const": c, "arg": None, "arg_index": None, "ignore": ign})
    return cases


def generate(tier):
    m = build_model(tier)
    src = "\n".join(m.lines) + "\n"
    os.makedirs(os.path.join(ZOO, "src"), exist_ok=True)
    cargo = '''# GENERATED by /verif/lib/zoogen.py
[package]
name = "zoo"
version = "0.0.0"
edition = "2021"

[workspace]

[dependencies]
divan = { path = "../dut" }
divan_verif_rt = { path = "../rt" }

[profile.dev]
opt-level = 0
debug = false
incremental = false
codegen-units = 16
'''
    max_id = max(m.costs) if m.costs else 0
    costs_rs = "pub static COSTS: [u64; %d] = [%s];\n" % (max_id + 1, ", ".join(str(m.costs.get(i, 1000)) for i in range(max_id + 1)))
    costs_rs += "pub static QUIET: [std::sync::atomic::AtomicU64; %d] = [const { std::sync::atomic::AtomicU64::new(0) }; %d];\n" % (max_id + 1, max_id + 1)

    def write_if_changed(path, text):
        if os.path.exists(path) and open(path).read() == text:
            return
        with open(path, "w") as f:
            f.write(text)

    write_if_changed(os.path.join(ZOO, "Cargo.toml"), cargo)
    write_if_changed(os.path.join(ZOO, "src", "main.rs"), src)
    write_if_changed(os.path.join(ZOO, "src", "rt.rs"), RT_RS)
    write_if_changed(os.path.join(ZOO, "src", "costs.rs"), costs_rs)
    os.makedirs(os.path.join(ZOO, ".cargo"), exist_ok=True)
    write_if_changed(os.path.join(ZOO, ".cargo", "config.toml"), "[net]\noffline = true\n")
    lock_src = os.path.join(ROOT, "harness", "Cargo.lock")
    lock_dst = os.path.join(ZOO, "Cargo.lock")
    if not os.path.exists(lock_dst):
        import shutil
        shutil.copy(lock_src, lock_dst)
    model = {
        "tier": tier, "benches": m.benches, "groups": m.groups, "cases": cases_of(m), "families": m.families,
        "source_sha": hashlib.sha1(src.encode()).hexdigest(), "file": "src/main.rs",
    }
    write_if_changed(os.path.join(ZOO, "model.json"), json.dumps(model, indent=1))
    return model


if __name__ == "__main__":
    import sys
    sys.path.insert(0, os.path.join(ROOT, "lib"))
    mdl = generate(sys.argv[1] if len(sys.argv) > 1 else "quick")
    print("benches=%d groups=%d cases=%d lines=%d" % (len(mdl["benches"]), len(mdl["groups"]), len(mdl["cases"]), len(open(os.path.join(ZOO, "src", "main.rs")).read().splitlines())))
