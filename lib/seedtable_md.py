#!/usr/bin/env python3
"""Prints the DESIGN.md table rows of one seeded round from seedtables/r<N>.json."""
import json, sys
rows = json.load(open(sys.argv[1]))
print("| seeded change | property | what it needs to manifest | first result | now |")
print("|---|---|---|---|---|")
for e in rows:
    missed = e["first_result"].startswith("MISSED")
    first = "**missed**" if missed else ("**no verdict (exit 2)**" if e["first_result"].startswith("MACHINERY") else "detected")
    now = "detected" + (" (after: %s)" % e["strengthened"] if e.get("strengthened") else "")
    if e.get("still_missed"):
        now = "**not detected**: " + e["still_missed"]
    print("| %s: %s | %s | %s | %s | %s |" % (e["id"], e["change"].replace("|", "\\|"), e["property"], e["needs"].replace("|", "\\|"), first, now))
