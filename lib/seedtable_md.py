#!/usr/bin/env python3
"""Prints the DESIGN.md table rows of one seeded round from seedtables/r<N>.json."""
import json, sys
rows = json.load(open(sys.argv[1]))
print("| seeded change | property | what it needs to manifest | first result | now |")
print("|---|---|---|---|---|")
for e in rows:
    missed = e["first_result"].startswith("MISSED")
    first = "**missed**" if missed else "detected"
    now = "detected" + (" (after: %s)" % e["strengthened"] if e.get("strengthened") else "")
    print("| %s: %s | %s | %s | %s | %s |" % (e["id"], e["change"].replace("|", "\\|"), e["property"], e["needs"].replace("|", "\\|"), first, now))
