"""Engine Z driver: the generated zoo crate, built with the real macros from /repo's working
tree (hooks on), run as a black box. Oracles compare observed stdout / entry dump /
invocation log / statistics tap with the generator's reference model."""
import concurrent.futures as cf
import json
import os
import re
import subprocess
import tempfile
import time

from common import Machinery
import zoogen

ROOT = os.path.dirname(os.path.dirname(os.path.abspath(__file__)))
NCPU = os.cpu_count() or 4

_state = {}


def zoo_dir(tier):
    return os.path.join(ROOT, "harness", "zoo-" + tier)


def target_dir(tier):
    return os.path.join(ROOT, "target-zoo", tier)


def ensure_built(tier, chk):
    """Generates (idempotently) and builds the zoo of this tier. Returns (binary, model)."""
    if tier in _state:
        return _state[tier]
    zoogen.ZOO = zoo_dir(tier)
    model = zoogen.generate(tier)
    env = chk.env_base()
    env["CARGO_TARGET_DIR"] = target_dir(tier)
    p = subprocess.run(["cargo", "build", "--offline"], cwd=zoo_dir(tier), env=env, stdout=subprocess.PIPE,
                       stderr=subprocess.PIPE, text=True, timeout=3600)
    if p.returncode != 0:
        tail = "\n".join(l for l in p.stderr.splitlines() if not l.startswith("warning"))[-4000:]
        raise Machinery("zoo build failed (tier %s):\n%s" % (tier, tail))
    binary = os.path.join(target_dir(tier), "debug", "zoo")
    model["_ncpu"] = parallelism(binary)
    _state[tier] = (binary, model)
    return _state[tier]


def setup(chk):
    ensure_built("quick", chk)


def clean_env():
    env = {"PATH": os.environ.get("PATH", "/usr/bin:/bin"), "HOME": os.environ.get("HOME", "/root"), "RUST_BACKTRACE": "0",
           "NO_COLOR": "1", "TERM": "dumb", "COLUMNS": "200"}
    return env


class Run:
    pass


def run_zoo(binary, argv, env_extra=None, want_log=True, want_dump=False, want_stats=False, timeout=120, clock=None):
    """One black-box run. Returns Run with rc, out, err, log (list of tab-split records), dump, stats."""
    env = clean_env()
    tmp = tempfile.mkdtemp(prefix="zoo")
    if want_log:
        env["ZOO_LOG"] = os.path.join(tmp, "log")
    if want_dump:
        env["ZOO_DUMP"] = os.path.join(tmp, "dump")
    if want_stats:
        env["DIVAN_VERIF_STATS"] = os.path.join(tmp, "stats")
    if clock is not None:
        env["DIVAN_VERIF_CLOCK"] = clock
    env.update(env_extra or {})
    r = Run()
    r.argv = argv
    r.env = {k: v for k, v in env.items() if k not in ("PATH", "HOME", "ZOO_LOG", "ZOO_DUMP", "DIVAN_VERIF_STATS", "TERM", "COLUMNS", "RUST_BACKTRACE", "NO_COLOR")}
    try:
        p = subprocess.run([binary] + argv, env=env, stdout=subprocess.PIPE, stderr=subprocess.PIPE, timeout=timeout, cwd=tmp)
        r.rc, r.out, r.err, r.timeout = p.returncode, p.stdout.decode("utf-8", "replace"), p.stderr.decode("utf-8", "replace"), False
    except subprocess.TimeoutExpired as e:
        r.rc, r.out, r.err, r.timeout = None, (e.stdout or b"").decode("utf-8", "replace"), (e.stderr or b"").decode("utf-8", "replace"), True
    r.log, r.dump, r.stats = [], [], []
    for name in ("log", "dump", "stats"):
        path = os.path.join(tmp, name)
        if os.path.exists(path):
            text = open(path).read()
            if name == "log":
                r.log = [l.split("\t") for l in text.splitlines() if l]
            else:
                setattr(r, name, [json.loads(l) for l in text.splitlines() if l])
            os.unlink(path)
    try:
        os.rmdir(tmp)
    except OSError:
        pass
    return r


def pmap(fn, items, workers=None):
    with cf.ThreadPoolExecutor(max_workers=workers or NCPU) as ex:
        return list(ex.map(fn, items))


def new_result(name, tier="quick"):
    return {"name": name, "states": 0, "transitions": 0, "traces_validated_against_impl": 0, "evaluations": 0, "excluded": 0,
            "distinct_outcomes": 0, "exhaustive": True, "samples": [], "violations": [], "bounds": {}, "wall_s": 0.0,
            "_engine": {"engine": "Z", "tier": tier}}


def violation(res, sig, text, run=None, extra=None):
    for v in res["violations"]:
        if v["sig"] == sig:
            return
    if len(res["violations"]) >= 40:
        return
    case = {"argv": run.argv if run else None, "env": run.env if run else None}
    case.update(extra or {})
    res["violations"].append({"sig": sig, "text": text, "case": case})


def count_run(res, r, steps=1):
    res["states"] += 1
    res["transitions"] += max(1, steps)
    res["traces_validated_against_impl"] += 1
    res["evaluations"] += 1


# ----------------------------------------------------------------------------------------
# Parsing
# ----------------------------------------------------------------------------------------

GLYPH = re.compile(r"^((?:│  |   )*)(├─ |╰─ )?(.*)$")


class Node:
    def __init__(self, name, depth, line_no, last, rest, raw):
        self.name, self.depth, self.line_no, self.last, self.rest, self.raw = name, depth, line_no, last, rest, raw
        self.children = []
        self.cont = []   # continuation rows (throughput / alloc) belonging to this node
        self.prefix = ""

    def path(self, parent=""):
        return self.name if not parent else parent + "::" + self.name


def parse_tree(out, has_columns):
    """Rebuilds the tree from indentation and glyphs alone. Returns (roots, errors, header)."""
    errors = []
    roots = []
    stack = []  # nodes by depth
    header = None
    lines = out.split("\n")
    for no, line in enumerate(lines, 1):
        if line.strip() == "":
            continue
        mt = GLYPH.match(line)
        prefix, branch, rest = mt.group(1), mt.group(2), mt.group(3)
        if branch is None:
            if prefix == "" and not line.startswith(" ") and not line.startswith("│"):
                # top-level node
                name, cells = split_cells(rest, has_columns)
                node = Node(name, 0, no, True, cells, line)
                roots.append(node)
                stack = [node]
                if has_columns and header is None:
                    header = cells
                continue
            # continuation row: belongs to the most recent leaf
            if not stack:
                errors.append("line %d: continuation row before any node: %r" % (no, line))
                continue
            stack[-1].cont.append((no, line))
            continue
        depth = len(prefix) // 3 + 1
        if depth > len(stack):
            errors.append("line %d: node at depth %d without a parent at depth %d: %r" % (no, depth, depth - 1, line))
            continue
        name, cells = split_cells(rest, has_columns)
        node = Node(name, depth, no, branch == "╰─ ", cells, line)
        node.prefix = prefix
        parent = stack[depth - 1]
        # well-formedness: a vertical bar exactly under ancestors that have later siblings
        for d in range(1, depth):
            seg = prefix[(d - 1) * 3:(d - 1) * 3 + 3]
            anc = stack[d]
            want = "   " if anc.last else "│  "
            if seg != want:
                errors.append("line %d: column %d holds %r under ancestor %r which %s later siblings" % (no, d, seg, anc.name, "has no" if anc.last else "has"))
        if parent.children and parent.children[-1].last:
            errors.append("line %d: %r follows a sibling drawn with the last-child corner" % (no, name))
        parent.children.append(node)
        del stack[depth:]
        stack.append(node)
    # every last child must be drawn with a corner
    def check_last(n):
        if n.children and not n.children[-1].last:
            errors.append("line %d: %r is the last child of %r but is drawn with a branch" % (n.children[-1].line_no, n.children[-1].name, n.name))
        for c in n.children:
            check_last(c)
    for r in roots:
        check_last(r)
    return roots, errors, header


def split_cells(rest, has_columns):
    """Splits 'name   cell │ cell │ ...' into (name, [cells])."""
    if not has_columns or "│" not in rest:
        if rest.endswith("(ignored)"):
            return rest[: -len("(ignored)")].rstrip(), ["(ignored)"]
        return rest.rstrip(), []
    first, *others = rest.split("│")
    # the name is separated from the first cell by at least two spaces
    mt = re.match(r"^(.*?)(?:\s{2,}(\S.*?))?\s*$", first)
    name = mt.group(1).rstrip()
    c0 = (mt.group(2) or "").strip()
    return name, [c0] + [o.strip() for o in others]


def flatten(nodes, parent=""):
    out = []
    for n in nodes:
        p = n.path(parent)
        out.append((p, n))
        out.extend(flatten(n.children, p))
    return out


# ----------------------------------------------------------------------------------------
# Reference helpers
# ----------------------------------------------------------------------------------------

_parallelism = {}


def parallelism(binary):
    """Divan's cached available parallelism, as the zoo process itself reports it."""
    if binary not in _parallelism:
        r = run_zoo(binary, ["--list", "nothing_matches_this"], want_dump=True)
        _parallelism[binary] = next((e["parallelism"] for e in r.dump if e.get("kind") == "meta"), os.cpu_count())
    return _parallelism[binary]


def thread_counts(eff, ncpu, runner_threads=None):
    """Normalised thread counts a benchmark runs with: 0 = available parallelism, sorted, unique."""
    t = runner_threads if runner_threads is not None else eff.get("threads")
    if not t:
        return [1]
    return sorted(set(ncpu if x == 0 else x for x in t))


def expected_records(model, cases, ncpu=None, runner=None):
    """Log records a *test-mode* run of exactly `cases` must produce, keyed (kind, bench id, arg,
    type, const): the function carrying a Bencher is entered once per thread count; the benchmarked
    function runs once per thread (once in all for bench_local; not at all when no samples are
    requested)."""
    benches = {b["id"]: b for b in model["benches"]}
    runner = runner or {}
    ncpu = ncpu or model.get("_ncpu") or os.cpu_count()
    want = []
    for c in cases:
        b = benches[c["bench"]]
        eff = b.get("effective") or {}
        key = (str(b["id"]), c["arg"] if c["arg"] is not None else "-", c["type"] or "-", c["const"] or "-")
        tcs = thread_counts(eff, ncpu, runner.get("threads"))
        n = runner.get("sample_count", eff.get("sample_count"))
        s = runner.get("sample_size", eff.get("sample_size"))
        nothing = n == 0 or s == 0 or eff.get("max_time_zero")
        if b["form"] == "bencher":
            want += [("ENTER",) + key] * len(tcs)
        if b.get("body") == "quiet" or nothing:
            continue
        local = b.get("style") == "bench_local"
        want += [("HIT",) + key] * (len(tcs) if local else sum(tcs))
    return sorted(want)


def observed_records(run):
    return sorted(tuple(r[:5]) for r in run.log if r[0] in ("HIT", "ENTER"))


def selected(cases, positives=(), skips=(), exact=False):
    def hit(f, p):
        return (f == p) if exact else (re.search(f, p) is not None)
    out = []
    for c in cases:
        if any(hit(f, c["path"]) for f in skips):
            continue
        if positives and not any(hit(f, c["path"]) for f in positives):
            continue
        out.append(c)
    return out


def filter_argv(positives, skips, exact):
    argv = list(positives)
    for s in skips:
        argv += ["--skip", s]
    if exact:
        argv.append("--exact")
    return argv


# ----------------------------------------------------------------------------------------
# C12
# ----------------------------------------------------------------------------------------

def check_c12(tier, seed, chk):
    binary, model = ensure_built(tier, chk)
    res = new_result("zoo-C12", tier)
    t0 = time.time()
    cases = model["cases"]

    # (i) entry dump vs prediction
    r = run_zoo(binary, ["--list"], want_dump=True)
    count_run(res, r, len(r.dump))
    if r.rc != 0:
        violation(res, {"check": "dump", "class": "crash"}, "zoo --list exited with %s: %s" % (r.rc, r.err[-400:]), r)
    want_entries = []
    for b in model["benches"]:
        mp = "::".join(["zoo"] + b["module"])
        opts = b["options"]
        ign = b["ignore"]
        if b["types"] is None and b["consts"] is None:
            want_entries.append(("bench", b["raw_name"], b["display_name"], mp, b["line"], b["col"], json.dumps(b["args"]), "null", ign, opts.get("sample_count"), opts.get("sample_size")))
        else:
            types, consts = b["types"], b["consts"]
            if (types is not None and consts is None and len(types) == 0) or (consts is not None and types is None and len(consts) == 0):
                continue  # `types = []` / `consts = []` alone register nothing
            if types is not None and consts is not None:
                g = [[{"type": t, "const": c, "args": b["args"]} for c in consts] for t in types]
            elif types is not None:
                g = [[{"type": t, "const": None, "args": b["args"]} for t in types]]
            else:
                g = [[{"type": None, "const": c, "args": b["args"]} for c in consts]]
            want_entries.append(("group", b["raw_name"], b["display_name"], mp, b["line"], b["col"], "null", json.dumps(g), ign, opts.get("sample_count"), opts.get("sample_size")))
    for g in model["groups"]:
        mp = "::".join(["zoo"] + g["module"])
        want_entries.append(("group", g["raw_name"], g["display_name"], mp, g["line"], g["col"], "null", "null", g["ignore"], g["options"].get("sample_count"), g["options"].get("sample_size")))
    got_entries = []
    for e in r.dump:
        if e.get("kind") == "meta":
            continue
        o = e["options"] or {}
        got_entries.append((e["kind"], e["raw_name"], e["display_name"], e["module_path"], e["line"], e["col"],
                            json.dumps(e.get("args")), json.dumps(e.get("generic")), o.get("ignore"),
                            str(o["sample_count"]) if o.get("sample_count") is not None else None,
                            str(o["sample_size"]) if o.get("sample_size") is not None else None))
    # explicit option expectations of the option-form items (threads, counters, times, ...)
    dump_by_key = {(e["module_path"], e["raw_name"]): e for e in r.dump if e.get("kind") != "meta"}
    for b in model["benches"]:
        exp = b.get("expect_options")
        if not exp:
            continue
        e = dump_by_key.get(("::".join(["zoo"] + b["module"]), b["raw_name"]))
        if e is None:
            continue
        o = e["options"] or {}
        got = {"sample_count": o.get("sample_count"), "sample_size": o.get("sample_size"), "threads": o.get("threads"), "counters": o.get("counters"),
               "min_time_ns": o.get("min_time_ns"), "max_time_ns": o.get("max_time_ns"), "skip_ext_time": o.get("skip_ext_time"), "ignore": o.get("ignore")}
        full = {"sample_count": None, "sample_size": None, "threads": None, "counters": [None] * 4, "min_time_ns": None, "max_time_ns": None, "skip_ext_time": None, "ignore": None}
        full.update(exp)
        if got != full:
            diff = {k: (got[k], full[k]) for k in full if got[k] != full[k]}
            violation(res, {"check": "registered-options", "fields": sorted(diff)[:2]}, "%s::%s is registered with options that differ from its attribute: (registered, written) %s" % ("::".join(b["module"]), b["raw_name"], diff), r)
    ws, gs = sorted(want_entries, key=str), sorted(got_entries, key=str)
    if ws != gs:
        missing = [w for w in ws if w not in gs]
        extra = [g for g in gs if g not in ws]
        dup = len(gs) != len(set(map(str, gs)))
        klass = "duplicate" if dup and not missing else ("missing" if missing and not extra else ("extra" if extra and not missing else "differs"))
        violation(res, {"check": "registered-entries", "class": klass},
                  "registered entries differ from the program: missing %s; unexpected %s" % (missing[:3], extra[:3]), r)
    res["samples"].append({"registered_entries": len(r.dump) - 1, "example": r.dump[0] if r.dump else None})

    # (ii) --list tree vs prediction (entries, generic instantiations as children; no args)
    roots, errors, _ = parse_tree(r.out, False)
    if errors:
        violation(res, {"check": "list", "class": "malformed-tree"}, "the --list tree cannot be parsed back: %s" % errors[:3], r)
    want_nodes = set()
    for c in cases:
        want_nodes.add(c["bench_path"])   # (not by splitting: a label may contain `::`)
    got_leaves = set(p for p, n in flatten(roots) if not n.children)
    if got_leaves != want_nodes and not errors:
        violation(res, {"check": "list", "class": "entries"}, "--list shows leaves %s..., the program defines %s..." % (sorted(got_leaves - want_nodes)[:4], sorted(want_nodes - got_leaves)[:4]), r)

    # (iii) terse list of everything (ignore resolution is C14's / C15's subject, not C12's)
    r2 = run_zoo(binary, ["--list", "--format", "terse", "--include-ignored"], {"NEXTEST": "1"})
    count_run(res, r2, len(r2.out.splitlines()))
    want_lines = sorted(c["path"] + ": benchmark" for c in cases)
    got_lines = sorted(l for l in r2.out.splitlines() if l.strip())
    if want_lines != got_lines:
        violation(res, {"check": "terse", "class": "cases"}, "terse listing differs from the program's cases: unexpected %s, missing %s" % (
            [l for l in got_lines if l not in want_lines][:4], [l for l in want_lines if l not in got_lines][:4]), r2)

    # (iii') the same listing without a flag and under --ignored: whichever way ignore resolves, every printed line is
    # the path of one of the program's cases, no line appears twice, and the two listings together are the whole program
    want_set = set(want_lines)
    halves = []
    for flag in ([], ["--ignored"]):
        rh = run_zoo(binary, ["--list", "--format", "terse"] + flag, {"NEXTEST": "1"})
        count_run(res, rh, len(rh.out.splitlines()))
        lines = [l for l in rh.out.splitlines() if l.strip()]
        halves.append(lines)
        alien = [l for l in lines if l not in want_set]
        if alien or len(set(lines)) != len(lines):
            violation(res, {"check": "terse", "class": "alien-path", "flag": " ".join(flag) or "none"},
                      "terse listing %s prints lines that are no case of the program (or prints a case twice): %s" % (" ".join(flag) or "(no flag)", (alien or [l for l in lines if lines.count(l) > 1])[:4]), rh)
    if sorted(halves[0] + halves[1]) != want_lines and not any(v["sig"].get("class") == "alien-path" for v in res["violations"]):
        both = set(halves[0]) & set(halves[1])
        lost = [l for l in want_lines if l not in halves[0] and l not in halves[1]]
        violation(res, {"check": "terse", "class": "partition"}, "the terse listings without a flag and under --ignored do not partition the program's cases: in both %s, in neither %s" % (sorted(both)[:4], lost[:4]), r2)

    # (iv) a full test run executes every case exactly once
    r3 = run_zoo(binary, ["--test", "--include-ignored"], timeout=600)
    count_run(res, r3, len(r3.log))
    if r3.rc != 0:
        violation(res, {"check": "run", "class": "crash"}, "zoo --test --include-ignored exited with %s: %s" % (r3.rc, r3.err[-600:]), r3)
    want = expected_records(model, cases)
    got = observed_records(r3)
    if want != got:
        missing = [w for w in want if w not in got]
        extra = [g for g in got if g not in want]
        twice = sorted(set(g for g in got if got.count(g) > want.count(g)))
        klass = "ran-twice" if twice and not missing else ("not-run" if missing and not extra else "wrong-identity")
        violation(res, {"check": "run", "class": klass}, "a full test run must invoke every case exactly once: not invoked %s; unexpected %s; more often than expected %s" % (missing[:4], extra[:4], twice[:4]), r3)
    # args expressions evaluated once per process, per function
    evals = {}
    for rec in r3.log:
        if rec[0] == "ARGS":
            evals[rec[1]] = evals.get(rec[1], 0) + 1
    bad = {k: v for k, v in evals.items() if v != 1}
    want_ids = set(str(b["id"]) for b in model["benches"] if b["args"] is not None and b["args_kind"] != "empty" and not (b["types"] == [] or b["consts"] == []))
    if bad or set(evals) != want_ids:
        violation(res, {"check": "args-evaluated-once"}, "args expressions must be evaluated exactly once per function and process: counts %s, never evaluated %s" % (bad, sorted(want_ids - set(evals))[:5]), r3)
    res["samples"].append({"cases": len(cases), "test_run_records": len(got), "example_case": cases[len(cases) // 2]})
    res["distinct_outcomes"] = len(set(got))
    res["bounds"] = {"benches": len(model["benches"]), "groups": len(model["groups"]), "cases": len(cases), "tier_zoo": tier,
                     "observations": ["entry dump through __private lists", "--list tree", "terse listing", "invocation log of --test --include-ignored"]}
    res["wall_s"] = time.time() - t0
    return [res]


# ----------------------------------------------------------------------------------------
# Shared: what a run with given filters / ignore flag must execute and show
# ----------------------------------------------------------------------------------------

FLAGS = [("none", []), ("ignored", ["--ignored"]), ("include", ["--include-ignored"])]


def runs_under(flag, case):
    return {"none": not case["ignore"], "ignored": case["ignore"], "include": True}[flag]


def log_is_silent(run):
    return [r for r in run.log if r[0] in ("HIT", "ENTER", "AUX")]


def shown_leaves(model, sel, flag, runner=None):
    """Leaf paths a --test / bench run displays for the selected cases: one per executed case
    (one `t=N` leaf per thread count when there are several); a benchmark that is skipped as
    ignored is one `(ignored)` leaf without argument children."""
    benches = {b["id"]: b for b in model["benches"]}
    out = set()
    for c in sel:
        if runs_under(flag, c):
            tcs = thread_counts(benches[c["bench"]].get("effective") or {}, model["_ncpu"], (runner or {}).get("threads"))
            if len(tcs) > 1:
                for t in tcs:
                    out.add("%s::t=%d" % (c["path"], t))
            else:
                out.add(c["path"])
        else:
            out.add(c["bench_path"])
    return out


def executed_paths(model, run):
    """Paths of the cases a run executed, by the invocation log (HIT, else ENTER, else the
    counters of allocation-free bodies), with multiplicity 1 per case."""
    benches = {b["id"]: b for b in model["benches"]}
    keys = set(tuple(r[1:5]) for r in run.log if r[0] in ("HIT", "ENTER"))
    quiet = set(r[1] for r in run.log if r[0] == "QUIET")
    out = []
    for c in model["cases"]:
        b = benches[c["bench"]]
        key = (str(b["id"]), c["arg"] if c["arg"] is not None else "-", c["type"] or "-", c["const"] or "-")
        if key in keys or (b.get("body") == "quiet" and str(b["id"]) in quiet):
            out.append(c["path"])
    return sorted(out)


# (the last two contain a comma: a repetition range and a tuple type's label)
FILTER_ALPHABET = ["ign", "^zoo::f00", "a_", "g_t", "inherited", "::1$", "m::", "(TA|x)$", "zoo::nest::a::same", "Shown As", "^zo{1,2}::f0[0-2]", r"\(u8, zoo::TA\)$",
                   # the case whose argument is the empty string: its path ends with the separator
                   "::$"]


# Patterns that match an inner node (a module path, a group's Rust name that its display name
# replaces, the crate root) but no complete case path below it: as skip filters they must exclude
# nothing, as positive filters select nothing.
INNER_ONLY = ["^zoo$", "outer$", "ign::ig$", "f002::outer::inner", "B_group", "ig_attr", "^zoo::nest::a$", "r#type",
              # the benchmark above an empty-string argument (`P` is not the path of the case `P::`)
              "a_weird_strs$"]


def filter_sets(tier, model):
    sets = [((), (), False)]
    alpha = FILTER_ALPHABET
    for f in INNER_ONLY:
        assert not any(re.search(f, c["path"]) for c in model["cases"]), "INNER_ONLY pattern %r matches a case path" % f
        sets.append(((), (f,), False))
        sets.append(((f,), (), False))
    sets.append((("f002", "ign"), ("outer$", "ign::ig$"), False))
    sets.append((("srt",), ("B_group", "^zoo$"), False))
    sets.append(((), tuple(INNER_ONLY), False))
    # inline flags and comments belong to their own pattern only
    sets.append((("(?i)IGN", "A_"), (), False))
    sets.append(((), ("(?i)IGN", "A_"), False))
    sets.append((("(?x) ign # the ignore family", "g_t"), (), False))
    sets.append((("(?i)SRT",), ("(?i)ARGS_", "B1"), False))
    for f in alpha:
        sets.append(((f,), (), False))
        sets.append(((), (f,), False))
    import itertools
    pairs = list(itertools.combinations(alpha, 2))
    for i, (a, b) in enumerate(pairs):
        if tier == "thorough" or i % 5 == 0:
            sets.append(((a, b), (), False))
            sets.append(((a,), (b,), False))
            sets.append(((b,), (a,), False))
            sets.append(((), (a, b), False))
    if tier == "thorough":
        for a, b in pairs[::3]:
            for c, d in pairs[1::7]:
                sets.append(((a, b), (c, d), False))
    # exact filters: whole paths (a case, a case with argument, an inner node, a non-path)
    paths = [c["path"] for c in model["cases"]]
    ex = [paths[0], paths[len(paths) // 3], next(p for p in paths if p.endswith("::1")), "zoo::ign::ig", "zoo", "nothing", next(p for p in paths if p.endswith("(u8, zoo::TA)"))]
    # a benchmark with an empty-string argument: `P` names an inner node, `P::` the case
    empty = next(p for p in paths if p.endswith("::a_weird_strs::"))
    ex += [empty, empty[:-2]]
    for e in ex:
        sets.append(((e,), (), True))
        sets.append(((), (e,), True))
    sets.append(((ex[0], ex[1]), (ex[1],), True))
    sets.append(((ex[0], ex[2]), (), True))
    return sets


# ----------------------------------------------------------------------------------------
# C13 (end to end) -- selection through the command line
# ----------------------------------------------------------------------------------------

def check_c13(tier, seed, chk):
    binary, model = ensure_built(tier, chk)
    res = new_result("zoo-C13", tier)
    t0 = time.time()
    cases = model["cases"]
    sets = filter_sets(tier, model)

    def one(fs):
        pos, skip, exact = fs
        return fs, run_zoo(binary, ["--test", "--include-ignored"] + filter_argv(pos, skip, exact), timeout=300), \
            run_zoo(binary, ["--list", "--format", "terse", "--include-ignored"] + filter_argv(pos, skip, exact), {"NEXTEST": "1"}, timeout=120)

    outcomes = set()
    for fs, r, rl in pmap(one, sets):
        pos, skip, exact = fs
        sel = selected(cases, pos, skip, exact)
        count_run(res, r, len(r.log))
        count_run(res, rl, len(rl.out.splitlines()))
        # the nextest listing shows exactly the selected cases as well (per argument)
        if rl.rc == 0:
            listed = sorted(l[: -len(": benchmark")] for l in rl.out.split("\n") if l.endswith(": benchmark"))
            want_listed = sorted(c["path"] for c in sel)
            if listed != want_listed:
                violation(res, {"check": "cli-filter-terse", "exact": exact, "positives": min(len(pos), 2), "skips": min(len(skip), 2)},
                          "filters positive=%s skip=%s exact=%s: the terse listing shows cases that are not selected %s / lacks selected cases %s" % (
                              list(pos), list(skip), exact, sorted(set(listed) - set(want_listed))[:4], sorted(set(want_listed) - set(listed))[:4]), rl)
        sig_base = {"check": "cli-filter", "exact": exact, "positives": min(len(pos), 2), "skips": min(len(skip), 2)}
        if r.rc != 0:
            violation(res, dict(sig_base, **{"class": "crash"}), "zoo --test with filters %s/%s exited with %s: %s" % (pos, skip, r.rc, r.err[-300:]), r)
            continue
        want, got = expected_records(model, sel), observed_records(r)
        if want != got:
            extra = [g for g in got if g not in want]
            missing = [w for w in want if w not in got]
            violation(res, dict(sig_base, **{"class": "ran-unselected" if extra else "did-not-run"}),
                      "filters positive=%s skip=%s exact=%s: executed cases differ from the rule: unexpected %s, missing %s" % (list(pos), list(skip), exact, extra[:4], missing[:4]), r)
            continue
        roots, errors, _ = parse_tree(r.out, False)
        shown = set(p for p, n in flatten(roots) if not n.children)
        want_shown = shown_leaves(model, sel, "include")
        if shown != want_shown:
            violation(res, dict(sig_base, **{"class": "shown"}),
                      "filters positive=%s skip=%s exact=%s: displayed cases differ from the selected ones: unexpected %s, missing %s" % (list(pos), list(skip), exact, sorted(shown - want_shown)[:4], sorted(want_shown - shown)[:4]), r)
        parents = set(p for p, n in flatten(roots) if n.children)
        # (from the model's tree, not by splitting paths: a label may itself contain `::`)
        want_root = expected_tree(model, sel, "test", "include")
        want_parents = set("zoo::" + p for p, n in tree_paths(want_root) if n.children) | ({"zoo"} if want_root.children else set())
        if parents != want_parents and shown == want_shown:
            violation(res, dict(sig_base, **{"class": "parents"}), "filters positive=%s skip=%s: group / module nodes shown %s differ from those with a selected case below" % (list(pos), list(skip), sorted(parents ^ want_parents)[:5]), r)
        outcomes.add(len(sel))
    # skip filters given through the builder: regex and exact ones can be mixed there (the command line
    # makes all filters exact or none)
    paths = [c["path"] for c in cases]
    bsets = []
    for f in FILTER_ALPHABET[:6] + INNER_ONLY[:5]:
        bsets.append(((f,), ()))
    for e in (paths[0], paths[len(paths) // 2], "zoo::ign::ig", "zoo"):
        bsets.append(((), (e,)))
    bsets.append((("a_", "inherited"), (paths[3], paths[7])))
    bsets.append((("^zoo::f0",), (paths[0], "zoo::f001")))
    bsets.append(((r"::\d+$",), (next(p for p in paths if p.endswith("::1")),)))

    def bone(bs):
        rx, ex = bs
        mode = ";".join(["default"] + ["skip_regex=" + f for f in rx] + ["skip_exact=" + e for e in ex] + ["run_ignored", "test"])
        return bs, run_zoo(binary, [], {"ZOO_MODE": mode}, timeout=300)

    for (rx, ex), r in pmap(bone, bsets):
        count_run(res, r, len(r.log))
        sel = [c for c in cases if not any(re.search(f, c["path"]) for f in rx) and c["path"] not in ex]
        sig_base = {"check": "builder-filter", "regex": len(rx), "exact": len(ex)}
        if r.rc != 0:
            violation(res, dict(sig_base, **{"class": "crash"}), "builder skip_regex=%s skip_exact=%s exited with %s: %s" % (rx, ex, r.rc, r.err[-300:]), r)
            continue
        want, got = expected_records(model, sel), observed_records(r)
        if want != got:
            extra = [g for g in got if g not in want]
            missing = [w for w in want if w not in got]
            violation(res, dict(sig_base, **{"class": "ran-unselected" if extra else "did-not-run"}),
                      "Divan::default().skip_regex(%s).skip_exact(%s).run_ignored().test_benches(): executed cases differ from the rule: unexpected %s, missing %s" % (list(rx), list(ex), extra[:4], missing[:4]), r)
        outcomes.add(("builder", len(sel)))
    # skip filters set through the builder first, the command line read afterwards (config_with_args): both apply
    csets = [
        (("a_",), (paths[0],), [], ()),
        (("inherited",), (), ["ign"], ()),
        ((), (paths[len(paths) // 2],), [], ("g_t",)),
        (("::1$",), ("zoo::ign::ig",), ["^zoo::f00", "ign"], ("direct",)),
    ]

    def cone(cs):
        rx, ex, cpos, cskip = cs
        mode = ";".join(["default"] + ["skip_regex=" + f for f in rx] + ["skip_exact=" + e for e in ex] + ["config_with_args", "main"])
        return cs, run_zoo(binary, ["--test", "--include-ignored"] + filter_argv(cpos, cskip, False), {"ZOO_MODE": mode}, timeout=300)

    for (rx, ex, cpos, cskip), r in pmap(cone, csets):
        count_run(res, r, len(r.log))
        sel = [c for c in selected(cases, tuple(cpos), tuple(cskip), False) if not any(re.search(f, c["path"]) for f in rx) and c["path"] not in ex]
        sig_base = {"check": "builder-then-cli", "regex": len(rx), "exact": len(ex), "cli": len(cpos) + len(cskip)}
        if r.rc != 0:
            violation(res, dict(sig_base, **{"class": "crash"}), "builder skips %s / %s then config_with_args with %s exited with %s: %s" % (rx, ex, filter_argv(cpos, cskip, False), r.rc, r.err[-300:]), r)
            continue
        want, got = expected_records(model, sel), observed_records(r)
        if want != got:
            extra = [g for g in got if g not in want]
            missing = [w for w in want if w not in got]
            violation(res, dict(sig_base, **{"class": "ran-unselected" if extra else "did-not-run"}),
                      "Divan::default().skip_regex(%s).skip_exact(%s).config_with_args().main() with arguments %s: executed cases differ from the rule (every skip filter applies, whichever route set it): unexpected %s, missing %s" % (list(rx), list(ex), filter_argv(cpos, cskip, False), extra[:4], missing[:4]), r)
        outcomes.add(("builder+cli", len(sel)))
    res["distinct_outcomes"] = len(outcomes)
    res["samples"] = [{"filter_set": {"positive": list(s[0]), "skip": list(s[1]), "exact": s[2]}, "selected_cases": len(selected(cases, *s))} for s in sets[1:40:9]]
    res["bounds"] = {"filter_sets": len(sets), "filter_alphabet": FILTER_ALPHABET, "inner_only_patterns": INNER_ONLY, "builder_filter_sets": len(bsets), "builder_then_cli_sets": len(csets), "cases": len(cases), "mode": "--test --include-ignored", "tier_zoo": tier}
    res["wall_s"] = time.time() - t0
    return [res]


# ----------------------------------------------------------------------------------------
# C14 -- listing runs nothing and agrees with what a run would execute
# ----------------------------------------------------------------------------------------

def check_c14(tier, seed, chk):
    binary, model = ensure_built(tier, chk)
    res = new_result("zoo-C14", tier)
    t0 = time.time()
    cases = model["cases"]
    sets = filter_sets("quick", model) if tier == "quick" else filter_sets("thorough", model)[::3]
    jobs = [(fs, flag) for fs in sets for flag in FLAGS]

    def one(job):
        (pos, skip, exact), (flag, fargv) = job
        fa = filter_argv(pos, skip, exact)
        a = run_zoo(binary, ["--list", "--format", "terse"] + fargv + fa, {"NEXTEST": "1"}, timeout=120)
        b = run_zoo(binary, ["--test"] + fargv + fa, timeout=300)
        c = run_zoo(binary, ["--list"] + fargv + fa, timeout=120)
        return job, a, b, c

    benches = {b["id"]: b for b in model["benches"]}
    outcomes = set()
    for job, a, b, c in pmap(one, jobs):
        (pos, skip, exact), (flag, fargv) = job
        desc = "filters positive=%s skip=%s exact=%s flag=%s" % (list(pos), list(skip), exact, flag)
        for r in (a, b, c):
            count_run(res, r, len(r.out.splitlines()))
        sigb = {"flag": flag, "filtered": bool(pos or skip)}
        for name, r in (("terse list", a), ("--list", c)):
            noisy = log_is_silent(r)
            if noisy:
                violation(res, dict(sigb, **{"check": "list-runs-nothing", "action": name}), "%s (%s) invoked benchmark code: %s" % (name, desc, noisy[:3]), r)
        if a.rc != 0 or b.rc != 0:
            violation(res, dict(sigb, **{"check": "crash"}), "%s: terse list exited %s, test run exited %s: %s" % (desc, a.rc, b.rc, (a.err + b.err)[-300:]), a)
            continue
        listed = [l for l in a.out.split("\n") if l.strip()]
        bad_lines = [l for l in listed if not l.endswith(": benchmark")]
        if bad_lines:
            violation(res, dict(sigb, **{"check": "terse-format"}), "%s: terse listing prints something other than `path: benchmark`: %r" % (desc, bad_lines[:3]), a)
        listed_paths = sorted(l[: -len(": benchmark")] for l in listed if l.endswith(": benchmark"))
        # cases the test run executed, mapped back to paths through the model
        executed = executed_paths(model, b)
        if listed_paths != executed:
            only_listed = [p for p in listed_paths if p not in executed]
            only_run = [p for p in executed if p not in listed_paths]
            dup = [p for p in set(listed_paths) if listed_paths.count(p) > 1]
            kind = "inherited-or-overridden" if any(any(g["ignore"] is not None for g in model["groups"] if "::".join(["zoo"] + g["module"] + [g["raw_name"]]) in p or g["display_name"] in p) for p in only_listed + only_run) else "direct"
            violation(res, dict(sigb, **{"check": "terse-vs-run", "ignore_source": kind, "listed_not_run": bool(only_listed), "run_not_listed": bool(only_run)}),
                      "%s: the terse listing and the test run disagree: listed but not run %s; run but not listed %s; listed twice %s" % (desc, only_listed[:4], only_run[:4], dup[:3]), a)
        outcomes.add((flag, len(listed_paths)))

    # Divan::list_benches through the builder
    for mode in ("default;list", "from_args;list", "from_args;run_ignored;list"):
        r = run_zoo(binary, [], {"ZOO_MODE": mode}, timeout=300)
        count_run(res, r, len(r.out.splitlines()))
        noisy = log_is_silent(r)
        if noisy:
            violation(res, {"check": "list-runs-nothing", "action": "Divan::list_benches"}, "Divan::list_benches() (%s) invoked benchmark code: %d invocations, e.g. %s" % (mode, len(noisy), noisy[:2]), r)

    # feeding every listed path back as the only --exact filter selects that case and no other
    r_all = run_zoo(binary, ["--list", "--format", "terse", "--include-ignored"], {"NEXTEST": "1"})
    listed = [l[: -len(": benchmark")] for l in r_all.out.split("\n") if l.endswith(": benchmark")]
    by_path = {}
    for cse in cases:
        by_path.setdefault(cse["path"], []).append(cse)

    def feed(path):
        return path, run_zoo(binary, ["--test", "--include-ignored", "--exact", path], timeout=120)

    step = 1 if tier == "thorough" or len(listed) < 600 else 2
    # (a path that contains a NUL cannot be written on a command line)
    for path, r in pmap(feed, [p for p in listed[::step] if "\0" not in p]):
        count_run(res, r, len(r.log))
        want = expected_records(model, by_path.get(path, []))
        got = observed_records(r)
        if want != got or len(by_path.get(path, [])) != 1:
            violation(res, {"check": "exact-feedback", "has_arg": any(c["arg"] is not None for c in by_path.get(path, []))},
                      "--test --exact %r must run exactly the listed case: ran %s, expected %s" % (path, got[:4], want[:4]), r)
    res["distinct_outcomes"] = len(outcomes)
    res["samples"] = [{"terse_listing_lines": len(listed), "example": listed[:3]}, {"jobs": len(jobs), "example_job": {"filters": list(map(list, jobs[5][0][:2])), "flag": jobs[5][1][0]}}]
    res["bounds"] = {"filter_sets": len(sets), "flags": [f[0] for f in FLAGS], "runs_per_job": ["terse list", "--test", "--list"], "exact_feedback_paths": len(listed[::step]),
                     "builder_modes": 3, "cases": len(cases), "tier_zoo": tier}
    res["wall_s"] = time.time() - t0
    return [res]


# ----------------------------------------------------------------------------------------
# C17 -- each row is measured with the argument, constant and type it names
# ----------------------------------------------------------------------------------------

SORTS = [("--sort", "kind"), ("--sort", "name"), ("--sort", "location"), ("--sortr", "kind"), ("--sortr", "name"), ("--sortr", "location")]


def args_evaluations(run):
    """bench id -> number of times its `args = ...` expression was evaluated in this process."""
    evals = {}
    for rec in run.log:
        if rec[0] == "ARGS":
            evals[rec[1]] = evals.get(rec[1], 0) + 1
    return evals


def check_args_once(res, sig, desc, run):
    """The argument list is evaluated once per process and shared by all generic instantiations."""
    bad = {k: v for k, v in args_evaluations(run).items() if v != 1}
    if bad:
        violation(res, dict(sig, **{"class": "args-evaluated-more-than-once"}),
                  "%s: an `args` expression was evaluated more than once in one process (bench id -> evaluations): %s" % (desc, dict(sorted(bad.items())[:6])), run)
        return False
    return True


def check_c17(tier, seed, chk):
    binary, model = ensure_built(tier, chk)
    res = new_result("zoo-C17", tier)
    t0 = time.time()
    cases = model["cases"]
    benches = {b["id"]: b for b in model["benches"]}
    by_path = {}
    for cse in cases:
        by_path.setdefault(cse["path"], []).append(cse)

    # (a) every case alone
    def alone(cse):
        return cse, run_zoo(binary, ["--test", "--include-ignored", "--exact", cse["path"]], timeout=120)

    # (a path that contains a NUL cannot be written on a command line: those cases are covered by the family runs of (b))
    generic_or_args = [c for c in cases if (c["arg"] is not None or c["type"] or c["const"]) and "\0" not in c["path"]]
    for cse, r in pmap(alone, generic_or_args):
        count_run(res, r, len(r.log))
        if not check_args_once(res, {"check": "case-alone", "generic": bool(cse["type"] or cse["const"])}, "--test --exact %r" % cse["path"], r):
            continue
        want = expected_records(model, [cse])
        got = observed_records(r)
        if want != got:
            b = benches[cse["bench"]]
            violation(res, {"check": "case-alone", "args_kind": b["args_kind"], "generic": bool(cse["type"] or cse["const"])},
                      "the case labelled %r ran with %s; its label demands argument %r, type %r, const %r" % (cse["path"], got[:3], cse["arg"], cse["type"], cse["const"]), r)

    # (b) whole families under every sort and under filters that keep strict subsets of the
    # arguments: the k-th displayed case must be the k-th invocation
    arg_benches = [b for b in model["benches"] if b["args"] and len(b["args"]) >= 2]
    if tier != "thorough":
        seen_kinds, keep = set(), []
        for b in arg_benches:
            key = (b["args_kind"], b["types"] is not None, b["consts"] is not None)
            if key not in seen_kinds:
                seen_kinds.add(key)
                keep.append(b)
        arg_benches = keep
    jobs = []
    for b in arg_benches:
        mine = [c for c in cases if c["bench"] == b["id"]]
        fam = "^" + re.escape(mine[0]["path"][: mine[0]["path"].index("::" + b["display_name"] + "::") + 2 + len(b["display_name"])]) + "::"
        labels = b["args"]
        subsets = [None]
        if len(labels) <= 4 or tier == "thorough":
            subsets += [("only", a) for a in labels[: 6]] + [("skip", a) for a in labels[: 6]]
        else:
            subsets += [("only", labels[0]), ("only", labels[-1]), ("skip", labels[1])]
        for sub in subsets:
            for sort in (SORTS if sub is None or tier == "thorough" else SORTS[1:5:3]):
                argv = ["--test", "--include-ignored", sort[0], sort[1], fam]
                keep_cases = mine
                if sub is not None:
                    kind, a = sub
                    esc = re.escape(a).replace("\\000", "\\x00").replace("\0", "\\x00")
                    if kind == "only":
                        argv = ["--test", "--include-ignored", sort[0], sort[1], fam + "(.*::)?" + esc + "$"]
                        keep_cases = [c for c in mine if c["arg"] == a]
                    else:
                        argv += ["--skip", "::" + esc + "$"]
                        keep_cases = [c for c in mine if c["arg"] != a]
                jobs.append((b, sub, sort, argv, keep_cases))

    def fam_run(job):
        return job, run_zoo(binary, job[3], timeout=120)

    for (b, sub, sort, argv, keep_cases), r in pmap(fam_run, jobs):
        count_run(res, r, len(r.log))
        sigb = {"check": "family-run", "args_kind": b["args_kind"], "subset": sub[0] if sub else "all", "sort": "%s %s" % sort}
        if not check_args_once(res, sigb, " ".join(argv), r):
            continue
        want = expected_records(model, keep_cases)
        got = observed_records(r)
        if want != got:
            violation(res, dict(sigb, **{"class": "identity"}), "%s %s, arguments kept: %s: invocations %s differ from the labelled cases %s" % (sort[0], sort[1], sub, got[:4], want[:4]), r)
            continue
        roots, errors, _ = parse_tree(r.out, False)
        shown = [p for p, n in flatten(roots) if not n.children]
        hits = [rec for rec in r.log if rec[0] == "HIT"]
        # map every hit back to its case path; order must equal display order
        order = []
        for rec in hits:
            for c in keep_cases:
                if (str(c["bench"]), c["arg"] if c["arg"] is not None else "-", c["type"] or "-", c["const"] or "-") == tuple(rec[1:5]):
                    order.append(c["path"])
                    break
        # a thread-count branch `t=N` is one row measured by N concurrent invocations of its case (test mode)
        expanded = []
        for pth in shown:
            mt = re.search(r"::t=(\d+)$", pth)
            # (bench_local measures on the calling thread only, whatever the thread count)
            expanded += [pth[: mt.start()]] * (1 if b.get("style") == "bench_local" else int(mt.group(1))) if mt else [pth]
        if order != expanded:
            violation(res, dict(sigb, **{"class": "row-order"}), "%s %s, arguments kept: %s: rows are displayed as %s but were measured in the order %s" % (sort[0], sort[1], sub, shown[:6], order[:6]), r)
    # (c) two test runs started at the same time on two threads of one process, with slow `args`
    # expressions: every list is still evaluated once, and every case runs once per run
    for delay in ("0", "3"):
        r = run_zoo(binary, [], {"ZOO_MODE": "default;par2_test", "ZOO_ARGS_DELAY_MS": delay}, timeout=600)
        count_run(res, r, len(r.log))
        sigc = {"check": "concurrent-runs", "delay_ms": delay}
        if r.rc != 0:
            violation(res, dict(sigc, **{"class": "crash"}), "two concurrent test runs exited with %s: %s" % (r.rc, r.err[-300:]), r)
            continue
        if not check_args_once(res, sigc, "two concurrent Divan::default().run_ignored().test_benches() (args delay %s ms)" % delay, r):
            continue
        sel = [c for c in cases if not c["path"].startswith("zoo::pnc")]
        want = sorted(expected_records(model, sel) * 2)
        got = sorted(observed_records(r))
        if want != got:
            missing = [w for w in set(want) if got.count(w) < want.count(w)]
            extra = [g for g in set(got) if got.count(g) > want.count(g)]
            violation(res, dict(sigc, **{"class": "identity"}), "two concurrent test runs: invocations differ from twice the labelled cases: too few %s, too many %s" % (sorted(missing)[:4], sorted(extra)[:4]), r)
    res["distinct_outcomes"] = len(set(j[0]["args_kind"] for j in jobs))
    res["samples"] = [{"cases_run_alone": len(generic_or_args), "family_runs": len(jobs), "example_argv": jobs[len(jobs) // 2][3] if jobs else None}]
    res["bounds"] = {"cases_with_arg_type_or_const": len(generic_or_args), "arg_benches_in_family_runs": len(arg_benches), "sorts": ["%s %s" % s for s in SORTS],
                     "subsets": "all, every single argument, every all-but-one (first 6 labels)", "tier_zoo": tier,
                     "args_evaluated_once": "checked in the full run of C12 and here per process through the invocation log"}
    res["wall_s"] = time.time() - t0
    return [res]


# ----------------------------------------------------------------------------------------
# Reference order (documented sort) and expected display tree
# ----------------------------------------------------------------------------------------

import functools


def natural_tokens(s):
    b = s.encode("utf-8")
    out, i = [], 0
    while i < len(b):
        d = 48 <= b[i] <= 57
        j = i
        while j < len(b) and (48 <= b[j] <= 57) == d:
            j += 1
        out.append((d, b[i:j]))
        i = j
    return out


def natural_cmp(a, b):
    ta, tb = natural_tokens(a), natural_tokens(b)
    for (da, xa), (db, xb) in zip(ta, tb):
        if da and db:
            ia, ib = int(xa), int(xb)
            if ia != ib:
                return -1 if ia < ib else 1
        elif xa != xb:
            return -1 if xa < xb else 1
    return (len(ta) > len(tb)) - (len(ta) < len(tb))


def num_value(s):
    from fractions import Fraction
    try:
        return Fraction(int(s))
    except ValueError:
        pass
    try:
        f = float(s)
        if f != f or f in (float("inf"), float("-inf")):
            return None
        return Fraction(s) if re.match(r"^[+-]?\d+(\.\d+)?$", s) else Fraction(f)
    except ValueError:
        return None


def arg_cmp_by_name(a, b):
    va, vb = num_value(a), num_value(b)
    if va is not None and vb is not None:
        return (va > vb) - (va < vb)
    if va is not None:
        return -1
    if vb is not None:
        return 1
    return natural_cmp(a, b)


def const_key(b, label):
    """Sort key of a generic constant by the constant type's own ordering."""
    ty = b.get("const_ty") or "usize"
    if ty == "char":
        return ord(label)
    if ty == "bool":
        return 1 if label == "true" else 0
    return int(label)


class DNode:
    """A node of the expected display tree."""
    def __init__(self, name, kind, loc, children=None, case=None, ignored=False, const=None, arg_index=None):
        self.name, self.kind, self.loc = name, kind, loc      # kind: 0 leaf entry, 1 parent (module / group / generic)
        self.children = children or []
        self.case = case          # model case executed at this leaf, if any
        self.ignored = ignored
        self.const = const        # integer const value for generic consts (own ordering)
        self.arg_index = arg_index


def sort_nodes(nodes, attr, reverse):
    def cmp(a, b):
        kind = (a.kind > b.kind) - (a.kind < b.kind)
        if a.const is not None and b.const is not None:
            name = (a.const > b.const) - (a.const < b.const) or natural_cmp(a.name, b.name)
        else:
            name = natural_cmp(a.name, b.name)
        loc = (a.loc > b.loc) - (a.loc < b.loc)
        order = {"kind": (kind, name, loc), "name": (name, loc, kind), "location": (loc, kind, name)}[attr]
        for o in order:
            if o:
                return -o if reverse else o
        return 0
    return sorted(nodes, key=functools.cmp_to_key(cmp))


def expected_tree(model, sel, action, flag, attr="kind", reverse=False, runner=None):
    """The tree divan must display for the selected cases: modules / groups by display name,
    benchmarks, generic instantiations, arguments and thread-count branches, in the documented
    order for (attr, reverse). action: 'bench' | 'test' | 'list'."""
    benches = {b["id"]: b for b in model["benches"]}
    groups = model["groups"]

    def group_of(module):
        for g in groups:
            if g["module"] == module[:-1] and g["raw_name"] == module[-1]:
                return g
        return None

    root = DNode("zoo", 1, (0, 0))
    index = {(): root}

    def module_node(module):
        key = tuple(module)
        if key in index:
            return index[key]
        parent = module_node(module[:-1])
        g = group_of(module)
        name = g["display_name"] if g else (module[-1][2:] if module[-1].startswith("r#") else module[-1])
        node = DNode(name, 1, (g["line"], g["col"]) if g else None)
        node.group = g
        parent.children.append(node)
        index[key] = node
        return node

    by_bench = {}
    for c in sel:
        by_bench.setdefault(c["bench"], []).append(c)
    ncpu = model["_ncpu"]
    for bid, cs in by_bench.items():
        b = benches[bid]
        parent = module_node(b["module"])
        loc = (b["line"], b["col"])
        eff = b.get("effective") or {}
        tcs = thread_counts(eff, ncpu, (runner or {}).get("threads"))

        def leafs(name, kind_loc, case_list, const=None, addr=0):
            """Display nodes of one entry (plain or args) given its cases."""
            ignored = not runs_under(flag, case_list[0])
            if ignored:
                return DNode(name, 0, kind_loc, ignored=True, const=const)
            if action == "list":
                return DNode(name, 0, kind_loc, const=const)
            def with_threads(nm, case, arg_index=None):
                if len(tcs) > 1:
                    return DNode(nm, 0, kind_loc, [DNode("t=%d" % t, 0, kind_loc, case=case) for t in tcs], const=const, arg_index=arg_index)
                return DNode(nm, 0, kind_loc, case=case, const=const, arg_index=arg_index)
            if b["args"] is not None:
                kids = [with_threads(c["arg"], c, c["arg_index"]) for c in case_list]
                # arguments: by name = by value (numbers) / natural, ties and `location` = declaration order
                def acmp(x, y):
                    name = arg_cmp_by_name(x.name, y.name)
                    locv = (x.arg_index > y.arg_index) - (x.arg_index < y.arg_index)
                    order = {"kind": (name, locv), "name": (name, locv), "location": (locv, name)}[attr]
                    for o in order:
                        if o:
                            return -o if reverse else o
                    return 0
                kids = sorted(kids, key=functools.cmp_to_key(acmp))
                n = DNode(name, 0, kind_loc, kids, const=const)
                n.args_parent = True
                return n
            return with_threads(name, case_list[0])

        if b["types"] is None and b["consts"] is None:
            parent.children.append(leafs(b["display_name"], loc, cs))
            continue
        gnode = DNode(b["display_name"], 1, loc)
        gnode.generic = True
        parent.children.append(gnode)
        # instantiations keep declaration order under `location` (same location: entry address)
        def decl_index(c):
            ti = b["types"].index(c["type"]) if c["type"] else 0
            ci = b["consts"].index(c["const"]) if c["const"] else 0
            return ti * 1000 + ci
        if b["types"] is not None and b["consts"] is not None:
            for t in b["types"]:
                tcs_cases = [c for c in cs if c["type"] == t]
                if not tcs_cases:
                    continue
                tnode = DNode(t, 1, None)   # the intermediate type level has no position of its own
                tnode.type_level = True
                gnode.children.append(tnode)
                for cv in b["consts"]:
                    ccases = [c for c in tcs_cases if c["const"] == cv]
                    if ccases:
                        n = leafs(cv, (loc, decl_index(ccases[0])), ccases, const=const_key(b, cv))
                        tnode.children.append(n)
        else:
            labels = b["types"] if b["types"] is not None else b["consts"]
            for lb in labels:
                lc = [c for c in cs if (c["type"] or c["const"]) == lb]
                if lc:
                    n = leafs(lb, (loc, decl_index(lc[0])), lc, const=const_key(b, lb) if b["consts"] is not None else None)
                    gnode.children.append(n)

    def finish(node):
        for ch in node.children:
            finish(ch)
        if node.loc is None and node.children and not getattr(node, "type_level", False):
            # a plain module's location is its earliest child's
            locs = [ch.loc if not isinstance(ch.loc[0], tuple) else ch.loc[0] for ch in node.children if ch.loc is not None]
            node.loc = min(locs) if locs else (0, 0)
        if getattr(node, "args_parent", False) or (node.kind == 0 and node.children):
            return  # argument / thread children are already in display order
        if getattr(node, "type_level", False):
            node.loc = (0, 0)
        kids = node.children
        # the intermediate type level falls back to name order under `location`
        if any(getattr(k, "type_level", False) for k in kids):
            node.children = sorted(kids, key=functools.cmp_to_key(lambda a, b: (-1 if reverse else 1) * natural_cmp(a.name, b.name)))
        else:
            def norm(n):
                m = DNode(n.name, n.kind, n.loc if n.loc is not None else (0, 0), const=n.const)
                m.src = n
                return m
            node.children = [m.src for m in sort_nodes([norm(k) for k in kids], attr, reverse)]
    finish(root)
    return root


def tree_paths(node, parent=""):
    out = []
    for ch in node.children:
        p = ch.name if not parent else parent + "::" + ch.name
        out.append((p, ch))
        out.extend(tree_paths(ch, p))
    return out


# ----------------------------------------------------------------------------------------
# C20 -- the printed tree is a faithful, well-formed picture of what ran
# ----------------------------------------------------------------------------------------

HEADINGS = ["fastest", "slowest", "median", "mean", "samples", "iters"]
CLOCK = "1000000000000,0,1000"   # 1 tick = 1 ps, reads cost nothing, precision 1 ns


def expected_rows(stat):
    """(first row cells, continuation rows as lists of cells) from one tapped statistics record."""
    first = stat["time_fmt"] + [str(stat["sample_count"]), str(stat["iter_count"])]
    cont = []
    for c in stat["counters"]:
        if c is not None:
            cont.append(c["fmt"])
    ma = stat["max_alloc"]
    import struct
    def nonzero(bits):
        return any(struct.unpack("<d", struct.pack("<Q", b))[0] != 0.0 for b in bits)
    if nonzero(ma["size_bits"]):
        cont.append(["max alloc:"])
        cont.append(ma["count_fmt"])
        cont.append(ma["size_fmt"])
    # alloc_ops is indexed Grow, Shrink, Alloc, Dealloc; printed alloc, dealloc, grow, shrink
    for label, idx in (("alloc:", 2), ("dealloc:", 3), ("grow:", 0), ("shrink:", 1)):
        op = stat["alloc_ops"][idx]
        if nonzero(op["count_bits"]) or nonzero(op["size_bits"]):
            cont.append([label])
            cont.append(op["count_fmt"])
            cont.append(op["size_fmt"])
    return first, cont


def compare_tree(res, sig, desc, run, roots, want_root, has_columns, stats=None, check_stats=False):
    """Parsed output vs expected display tree: same nodes, same depth-first order."""
    if len(roots) != 1 or roots[0].name != "zoo":
        if not want_root.children and not roots:
            return True
        violation(res, dict(sig, **{"class": "roots"}), "%s: expected a single top-level node `zoo`, parsed %s" % (desc, [r.name for r in roots]), run)
        return False
    got = [(p, n) for p, n in flatten(roots[0].children)]
    want = tree_paths(want_root)
    gp, wp = [p for p, _ in got], [p for p, _ in want]
    if sorted(gp) != sorted(wp):
        dup = sorted(set(p for p in gp if gp.count(p) > 1))
        violation(res, dict(sig, **{"class": "node-set", "duplicate": bool(dup)}),
                  "%s: displayed nodes differ from what was selected: unexpected %s, missing %s, shown twice %s" % (desc, sorted(set(gp) - set(wp))[:4], sorted(set(wp) - set(gp))[:4], dup[:3]), run)
        return False
    if gp != wp:
        k = next(i for i in range(len(gp)) if gp[i] != wp[i])
        violation(res, dict(sig, **{"class": "node-order"}), "%s: depth-first display order differs from the documented sort order at position %d: shown %s, expected %s" % (desc, k, gp[k:k + 4], wp[k:k + 4]), run)
        return False
    # ignored marks
    for (p, g), (_, w) in zip(got, want):
        is_ign = bool(g.rest) and g.rest[0] == "(ignored)"
        if is_ign != w.ignored:
            violation(res, dict(sig, **{"class": "ignored-mark"}), "%s: %r is %sshown as (ignored) but its effective ignore says otherwise" % (desc, p, "" if is_ign else "not "), run)
            return False
    if not check_stats:
        return True
    # statistics rows: leaves that ran, in display order, against the tapped statistics in order
    ran = [(p, g, w) for (p, g), (_, w) in zip(got, want) if w.case is not None]
    if len(ran) != len(stats):
        violation(res, dict(sig, **{"class": "stats-count"}), "%s: %d leaves display statistics, %d statistics blocks were computed" % (desc, len(ran), len(stats)), run)
        return False
    for (p, g, w), stat in zip(ran, stats):
        first, cont = expected_rows(stat)
        if g.rest != first:
            col = next((HEADINGS[i] for i in range(min(len(g.rest), 6)) if i >= len(first) or g.rest[i] != first[i]), "count")
            violation(res, dict(sig, **{"class": "cells", "column": col}), "%s: row %r shows %s under (fastest, slowest, median, mean, samples, iters); the statistics computed for it format as %s" % (desc, p, g.rest, first), run)
            return False
        rows = []
        want_prefix = g.prefix + ("│" if not g.last else " ")
        for no, line in g.cont:
            if not line.startswith(want_prefix):
                violation(res, dict(sig, **{"class": "continuation-prefix"}), "%s: continuation row %d of %r starts %r, its position demands %r" % (desc, no, p, line[: len(want_prefix) + 2], want_prefix), run)
                return False
            body = line[len(want_prefix):]
            cells = [c.strip() for c in body.split("│")]
            while len(cells) > 1 and cells[-1] == "":
                cells.pop()
            rows.append(cells)
        want_rows = []
        for r_ in cont:
            r2 = list(r_)
            while len(r2) > 1 and r2[-1] == "":
                r2.pop()
            want_rows.append(r2)
        if rows != want_rows:
            k = next((i for i in range(min(len(rows), len(want_rows))) if rows[i] != want_rows[i]), min(len(rows), len(want_rows)))
            violation(res, dict(sig, **{"class": "continuation-rows"}), "%s: throughput / allocation rows of %r differ from the computed statistics at row %d: shown %s, expected %s" % (desc, p, k, rows[k:k + 2], want_rows[k:k + 2]), run)
            return False
    # nodes that did not run carry no continuation rows
    for (p, g), (_, w) in zip(got, want):
        if w.case is None and g.cont:
            violation(res, dict(sig, **{"class": "stray-rows"}), "%s: %r did not run but is followed by continuation rows %s" % (desc, p, g.cont[:2]), run)
            return False
    return True


def check_c20(tier, seed, chk):
    binary, model = ensure_built(tier, chk)
    res = new_result("zoo-C20", tier)
    t0 = time.time()
    cases = model["cases"]
    fams = sorted(k for k, v in model["families"].items() if v == "shapes")
    extra = ["k", "ign", "srt", "nest"] + sorted(k for k, v in model["families"].items() if v == "forms")[:: 3 if tier == "quick" else 1]
    configs = [
        ("bench", ["--bench", "--timer", "tsc", "--sample-count", "3", "--sample-size", "2"], {"sample_count": 3, "sample_size": 2}),
        ("test", ["--test"], {}),
        ("list", ["--list"], {}),
    ]
    variants = [
        ("bench", ["--bench", "--timer", "tsc", "--sample-count", "2", "--sample-size", "1", "--items-count", "5"], {"sample_count": 2, "sample_size": 1}),
        ("bench", ["--bench", "--timer", "tsc", "--sample-count", "4", "--sample-size", "3", "--bytes-count", "1500", "--bytes-format", "binary", "--chars-count", "3"], {"sample_count": 4, "sample_size": 3}),
        ("bench", ["--bench", "--timer", "tsc", "--sample-count", "1", "--sample-size", "1", "--sortr", "name", "--include-ignored"], {"sample_count": 1, "sample_size": 1}),
        ("bench", ["--bench", "--timer", "tsc", "--sample-count", "0"], {"sample_count": 0}),
        ("test", ["--test", "--sort", "location", "--ignored"], {}),
        # filters that keep a strict subset of the arguments / instantiations
        ("test", ["--test", "--skip", "::(yy|2|TB)$"], {}),
        ("bench", ["--bench", "--timer", "tsc", "--sample-count", "2", "--sample-size", "2", "--skip", "::(x|3|TA)$"], {"sample_count": 2, "sample_size": 2}),
    ]
    jobs = []
    for fam in fams + extra:
        for cfg in configs:
            jobs.append((fam, cfg))
    for i, fam in enumerate(fams + extra):
        for j, v in enumerate(variants):
            if tier == "thorough" or (i + j) % 3 == 0:
                jobs.append((fam, v))
    # whole zoo (column widths and name span interact across the whole tree)
    for cfg in configs + variants[:2]:
        jobs.append((None, cfg))

    def one(job):
        fam, (action, argv, runner) = job
        flt = ["^zoo::%s::" % fam] if fam else ["--skip", "^zoo::pnc"]
        r = run_zoo(binary, argv + flt, want_stats=(action == "bench"), clock=CLOCK, timeout=600)
        return job, r

    outcomes = set()
    for (fam, (action, argv, runner)), r in pmap(one, jobs):
        count_run(res, r, len(r.out.splitlines()))
        desc = "zoo %s %s" % (" ".join(argv), fam or "(whole zoo)")
        sig = {"check": "painted-tree", "action": action}
        if r.rc != 0 or r.timeout:
            violation(res, dict(sig, **{"class": "crash"}), "%s exited with %s: %s" % (desc, r.rc, r.err[-400:]), r)
            continue
        flag = "include" if "--include-ignored" in argv else ("ignored" if "--ignored" in argv else "none")
        attr, reverse = "kind", False
        for k in ("--sort", "--sortr"):
            if k in argv:
                attr, reverse = argv[argv.index(k) + 1], k == "--sortr"
        sel = [c for c in cases if (c["path"].startswith("zoo::%s::" % fam) if fam else not c["path"].startswith("zoo::pnc"))]
        if "--skip" in argv:
            sel = selected(sel, (), (argv[argv.index("--skip") + 1],), False)
        has_columns = action == "bench"
        roots, errors, header = parse_tree(r.out, has_columns)
        if errors:
            violation(res, dict(sig, **{"class": "malformed"}), "%s: the output cannot be parsed back into a tree: %s" % (desc, errors[:3]), r)
            continue
        if has_columns and roots and header != HEADINGS:
            violation(res, dict(sig, **{"class": "header"}), "%s: header cells are %s, expected %s" % (desc, header, HEADINGS), r)
            continue
        want_root = expected_tree(model, sel, action, flag, attr, reverse, runner)
        ok = compare_tree(res, sig, desc, r, roots, want_root, has_columns, r.stats, check_stats=(action == "bench"))
        if ok and action != "list":
            # (ignored) rows and listings have an empty invocation log for those benchmarks
            ran_ids = set(rec[1] for rec in r.log if rec[0] in ("HIT", "ENTER", "QUIET"))
            for c in sel:
                if not runs_under(flag, c) and str(c["bench"]) in ran_ids:
                    violation(res, dict(sig, **{"class": "ignored-ran"}), "%s: %r is marked (ignored) but its body ran" % (desc, c["path"]), r)
        outcomes.add((action, len(tree_paths(want_root))))
    res["distinct_outcomes"] = len(outcomes)
    res["samples"] = [{"families": len(fams + extra), "jobs": len(jobs), "example_argv": jobs[3][1][1]}, {"shape_families": fams[:5]}]
    res["bounds"] = {"tree_shapes": "all ordered forests with <= %d nodes below the family root (%d families)" % (6 if tier == "thorough" else 4, len(fams)),
                     "leaf_kinds": ["bench", "args(2)", "ignored", "threads=[1,2]", "Bencher::counter + bytes_count", "allocation-free body", "with_inputs + input_counter", "wide display name", "non-ASCII display name"],
                     "actions": ["bench (virtual clock)", "test", "list"], "variants": [" ".join(v[1]) for v in variants], "other_families": extra[:6], "tier_zoo": tier}
    res["wall_s"] = time.time() - t0
    return [res]


# ----------------------------------------------------------------------------------------
# C16 (end to end) -- printed order under every --sort / --sortr
# ----------------------------------------------------------------------------------------

def check_c16(tier, seed, chk):
    binary, model = ensure_built(tier, chk)
    res = new_result("zoo-C16", tier)
    t0 = time.time()
    cases = model["cases"]
    fams = ["srt", "ign", "nest", "pw"] + sorted(k for k, v in model["families"].items() if v == "shapes")[:: 4 if tier == "quick" else 1]
    jobs = []
    for fam in fams + [None]:
        for sort in SORTS:
            for action, argv in (("test", ["--test"]), ("list", ["--list"])):
                jobs.append((fam, sort, action, argv, "none"))
        if fam == "srt":
            for sort in SORTS:
                jobs.append((fam, sort, "bench", ["--bench", "--timer", "tsc", "--sample-count", "1", "--sample-size", "1"], "none"))
        if fam in ("srt", "ign"):
            # ignored benchmarks that are run anyway are ordered like any other
            for sort in SORTS:
                for flag, fargv in FLAGS[1:]:
                    jobs.append((fam, sort, "test", ["--test"] + fargv, flag))
                    if fam == "srt":
                        jobs.append((fam, sort, "list", ["--list"] + fargv, flag))

    # the same order requested through the environment (DIVAN_SORT / DIVAN_SORTR)
    for sort in SORTS:
        jobs.append(("srt", sort, "test", ["--test"], "env"))
        jobs.append(("pw", sort, "list", ["--list"], "env"))

    def one(job):
        fam, sort, action, argv, flag = job
        if flag == "env":
            return job, run_zoo(binary, argv + ["^zoo::%s::" % fam], {"DIVAN_SORT" if sort[0] == "--sort" else "DIVAN_SORTR": sort[1]}, want_stats=False, clock=CLOCK, timeout=600)
        flt = ["^zoo::%s::" % fam] if fam else ["--skip", "^zoo::pnc"]
        return job, run_zoo(binary, argv + [sort[0], sort[1]] + flt, want_stats=False, clock=CLOCK, timeout=600)

    for (fam, sort, action, argv, flag), r in pmap(one, jobs):
        count_run(res, r, len(r.out.splitlines()))
        desc = "zoo %s %s %s %s" % (" ".join(argv), sort[0], sort[1], fam or "(whole zoo)")
        sig = {"check": "printed-order", "sort": "%s %s" % sort, "action": action}
        if flag == "env":
            sig["route"] = "environment"
            desc = "zoo %s with %s=%s %s" % (" ".join(argv), "DIVAN_SORT" if sort[0] == "--sort" else "DIVAN_SORTR", sort[1], fam)
            flag = "none"
        if flag != "none":
            sig["ignored_flag"] = flag
        if r.rc != 0:
            violation(res, dict(sig, **{"class": "crash"}), "%s exited with %s: %s" % (desc, r.rc, r.err[-400:]), r)
            continue
        sel = [c for c in cases if (c["path"].startswith("zoo::%s::" % fam) if fam else not c["path"].startswith("zoo::pnc"))]
        roots, errors, _ = parse_tree(r.out, action == "bench")
        if errors:
            violation(res, dict(sig, **{"class": "malformed"}), "%s: output cannot be parsed: %s" % (desc, errors[:2]), r)
            continue
        want_root = expected_tree(model, sel, action, flag, sort[1], sort[0] == "--sortr", {"sample_count": 1, "sample_size": 1} if action == "bench" else None)
        compare_tree(res, sig, desc, r, roots, want_root, action == "bench")
    res["distinct_outcomes"] = len(jobs)
    res["samples"] = [{"families": fams[:6], "sorts": ["%s %s" % s_ for s_ in SORTS], "jobs": len(jobs)}]
    res["bounds"] = {"families": len(fams) + 1, "sorts": 6, "actions": ["test", "list", "bench (sort family)", "test/list with --ignored and --include-ignored (sort and ignore families)"], "tier_zoo": tier,
                     "sort_family": "scrambled declaration order: benches b10/b2/A1, a module, a group with a custom display name, args lists (ints, negatives, floats, strings), generic consts / types / types x consts"}
    res["wall_s"] = time.time() - t0
    return [res]


# ----------------------------------------------------------------------------------------
# C15 / C03 (end to end) -- options through attribute levels, CLI, environment, builder
# ----------------------------------------------------------------------------------------

def simulate(cost, gen_cost, n, s, min_ps, max_ps, skip, precision_ps=1000):
    """The documented sampling rule (C03 / C04 / C19) for one thread under the virtual clock, where a call
    costs `cost` ticks of timed and an input `gen_cost` ticks of external time and nothing else advances the
    clock. Returns (calls, recorded samples, iterations per sample)."""
    if max_ps == 0 or n == 0 or s == 0:
        return 0, 0, 0
    max_ps = float("inf") if max_ps is None else max_ps
    min_ps = 0 if min_ps is None else min_ps
    tuned = s is None
    size = 1 if tuned else s
    passed = not tuned
    elapsed = recorded = calls = 0
    while True:
        calls += size
        timed = size * cost
        if not passed and timed // precision_ps > 100:
            passed, recorded = True, 0
        if passed:
            recorded += 1
        elapsed += max(timed, 1000) if skip else size * (cost + gen_cost)
        more = (not passed) or recorded < n
        if elapsed >= max_ps or (not more and elapsed >= min_ps):
            break
        if not passed:
            size *= 2
    # tuning cut short by max_time: the newest round is all there is
    return calls, (recorded if passed else 1), size


def tuned_calls(cost_ps, n, precision_ps=1000):
    """Calls of a T = 1 benchmark with automatic sample size under the virtual clock."""
    calls, _, size = simulate(cost_ps, 0, n, None, None, None, False, precision_ps)
    return calls, size


def expected_bench_mode(b, ncpu, runner):
    """(total calls, [(T, samples, iters)] per thread count) for a bench-mode run."""
    eff = b.get("effective") or {}
    tcs = thread_counts(eff, ncpu, runner.get("threads"))
    if b.get("style") == "bench_local":
        tcs_run = [1] * len(tcs)
    else:
        tcs_run = tcs
    n = runner.get("sample_count", eff.get("sample_count"))
    s = runner.get("sample_size", eff.get("sample_size"))
    runner_max = 0 if runner.get("max_time_zero") else runner.get("max_time_ps")
    max_ps = runner_max if runner_max is not None else eff.get("max_time_ps")
    min_ps = runner.get("min_time_ps", eff.get("min_time_ps"))
    skip = runner.get("skip_ext", eff.get("skip_ext"))
    n_eff = 100 if n is None else n
    timed_limits = (max_ps not in (None, 0)) or (min_ps not in (None, 0))
    calls, rows = 0, []
    for t in tcs_run:
        if n == 0 or s == 0 or max_ps == 0:
            rows.append((t, 0, 0))
            continue
        rounds = -(-n_eff // t)
        if t != 1 and (s is None or timed_limits):
            return None, None  # several threads: clock readings depend on the schedule
        if t == 1:
            c, samples, size = simulate(b["cost"], b.get("gen_cost", 0), n_eff, s, min_ps, max_ps, bool(skip))
            calls += c
            rows.append((t, samples, samples * size))
        else:
            calls += s * t * rounds
            rows.append((t, rounds * t, rounds * t * s))
    return calls, rows


RUNNER_SOURCES = [
    ("none", [], {}, None, {}),
    ("cli sample_count", ["--sample-count", "7"], {}, None, {"sample_count": 7}),
    ("env sample_count", [], {"DIVAN_SAMPLE_COUNT": "7"}, None, {"sample_count": 7}),
    ("builder sample_count", [], {}, "from_args;sample_count=7;main", {"sample_count": 7}),
    ("cli over env sample_count", ["--sample-count", "6"], {"DIVAN_SAMPLE_COUNT": "9"}, None, {"sample_count": 6}),
    ("cli sample_size", ["--sample-size", "3"], {}, None, {"sample_size": 3}),
    ("env sample_size", [], {"DIVAN_SAMPLE_SIZE": "3"}, None, {"sample_size": 3}),
    ("builder sample_size", [], {}, "from_args;sample_size=3;main", {"sample_size": 3}),
    ("cli both", ["--sample-size", "2", "--sample-count", "5"], {}, None, {"sample_size": 2, "sample_count": 5}),
    ("cli threads", ["--threads", "2,1,2", "--sample-size", "2", "--sample-count", "4"], {}, None, {"threads": [2, 1, 2], "sample_size": 2, "sample_count": 4}),
    ("env threads", ["--sample-size", "1", "--sample-count", "3"], {"DIVAN_THREADS": "2"}, None, {"threads": [2], "sample_size": 1, "sample_count": 3}),
    ("builder threads", ["--sample-size", "1", "--sample-count", "3"], {}, "from_args;threads=0,0;main", {"threads": [0, 0], "sample_size": 1, "sample_count": 3}),
    ("cli zero count", ["--sample-count", "0"], {}, None, {"sample_count": 0}),
    ("cli max_time 0", ["--max-time", "0"], {}, None, {"max_time_zero": True}),
    ("cli items", ["--items-count", "5", "--sample-size", "1", "--sample-count", "1"], {}, None, {"sample_size": 1, "sample_count": 1, "items": 5}),
    ("env bytes", ["--sample-size", "1", "--sample-count", "1"], {"DIVAN_BYTES_COUNT": "77"}, None, {"sample_size": 1, "sample_count": 1, "bytes": 77}),
    ("cli max_time", ["--max-time", "0.0000000054", "--sample-size", "1"], {}, None, {"max_time_ps": 5000, "sample_size": 1}),
    ("env max_time", ["--sample-size", "2"], {"DIVAN_MAX_TIME": "0.0000000074"}, None, {"max_time_ps": 7000, "sample_size": 2}),
    ("builder max_time", ["--sample-size", "1"], {}, "from_args;max_time_ns=6;main", {"max_time_ps": 6000, "sample_size": 1}),
    ("cli over env max_time", ["--max-time", "0.0000000034", "--sample-size", "1"], {"DIVAN_MAX_TIME": "0.0000000094"}, None, {"max_time_ps": 3000, "sample_size": 1}),
    ("cli min_time", ["--min-time", "0.0000000094", "--sample-size", "1", "--sample-count", "2"], {}, None, {"min_time_ps": 9000, "sample_size": 1, "sample_count": 2}),
    ("env min_time", ["--sample-size", "1", "--sample-count", "2"], {"DIVAN_MIN_TIME": "0.0000000054"}, None, {"min_time_ps": 5000, "sample_size": 1, "sample_count": 2}),
    ("builder min_time", ["--sample-size", "2", "--sample-count", "1"], {}, "from_args;min_time_ns=7;main", {"min_time_ps": 7000, "sample_size": 2, "sample_count": 1}),
    ("cli skip_ext_time flag", ["--skip-ext-time", "--sample-size", "1"], {}, None, {"skip_ext": True, "sample_size": 1}),
    ("cli skip_ext_time false", ["--skip-ext-time=false", "--sample-size", "1"], {}, None, {"skip_ext": False, "sample_size": 1}),
    ("env skip_ext_time", ["--sample-size", "1"], {"DIVAN_SKIP_EXT_TIME": "true"}, None, {"skip_ext": True, "sample_size": 1}),
    ("builder skip_ext_time", ["--sample-size", "1"], {}, "from_args;skip_ext_time=true;main", {"skip_ext": True, "sample_size": 1}),
    ("cli max_time tuned", ["--max-time", "0.0000000304"], {}, None, {"max_time_ps": 30000}),
    ("builder before the arguments", [], {}, "default;sample_count=7;sample_size=2;config_with_args;main", {"sample_count": 7, "sample_size": 2}),
    ("builder before the arguments, another flag given", ["--sample-count", "4"], {}, "default;sample_size=3;max_time_ns=6;config_with_args;main", {"sample_count": 4, "sample_size": 3, "max_time_ps": 6000}),
    ("builder times before the arguments", ["--sample-size", "1"], {}, "default;min_time_ns=7;max_time_ns=9;skip_ext_time=true;threads=1;items_count=3;config_with_args;main", {"sample_size": 1, "min_time_ps": 7000, "max_time_ps": 9000, "skip_ext": True, "threads": [1], "items": 3}),
    ("cli items alone", ["--items-count", "5"], {}, None, {"items": 5}),
    ("env bytes alone", [], {"DIVAN_BYTES_COUNT": "77"}, None, {"bytes": 77}),
    ("builder cycles alone", [], {}, "from_args;cycles_count=4;main", {"cycles": 4}),
    ("builder chars+cycles", ["--sample-size", "1", "--sample-count", "1"], {}, "from_args;chars_count=3;cycles_count=4;main", {"sample_size": 1, "sample_count": 1, "chars": 3, "cycles": 4}),
]


def check_options(tier, seed, chk, prop, sources=None):
    """sources: predicate on a RUNNER_SOURCES entry (None = all)."""
    binary, model = ensure_built(tier, chk)
    runner_sources = [x for x in RUNNER_SOURCES if sources is None or sources(x)]
    res = new_result("zoo-" + prop, tier)
    t0 = time.time()
    ncpu = model["_ncpu"]
    benches = {b["id"]: b for b in model["benches"]}
    opt_cases = [c for c in model["cases"] if c["path"].startswith(("zoo::opt::", "zoo::pw::"))]

    def one(src):
        name, argv, env, mode, runner = src
        e = dict(env)
        if mode:
            e["ZOO_MODE"] = mode
        return src, run_zoo(binary, ["--bench", "--timer", "tsc"] + argv + ["^zoo::(opt|pw)::"], e, want_stats=True, clock=CLOCK, timeout=900)

    for (name, argv, env, mode, runner), r in pmap(one, runner_sources):
        count_run(res, r, len(r.log))
        desc = "runner options from %s (%s %s %s)" % (name, " ".join(argv), env, mode or "")
        sig = {"check": "options-e2e", "source": name.split(" ")[0], "field": " ".join(name.split(" ")[1:])}
        if r.rc != 0:
            violation(res, dict(sig, **{"class": "crash"}), "%s: exit %s: %s" % (desc, r.rc, r.err[-400:]), r)
            continue
        hits = {}
        for rec in r.log:
            if rec[0] == "HIT":
                hits[tuple(rec[1:5])] = hits.get(tuple(rec[1:5]), 0) + 1
        # display order = order of the tapped statistics; map through the painted tree
        roots, errors, header = parse_tree(r.out, True)
        want_root = expected_tree(model, opt_cases, "bench", "none", "kind", False, runner)
        if errors or not compare_tree(res, dict(sig, **{"stage": "tree"}), desc, r, roots, want_root, True, r.stats, check_stats=True):
            if errors:
                violation(res, dict(sig, **{"class": "malformed"}), "%s: %s" % (desc, errors[:2]), r)
            continue
        leaves = [(p, w) for p, w in tree_paths(want_root) if w.case is not None]
        stats_by_bench = {}   # keyed by case path (an args benchmark has one block per argument)
        for (p, w), st in zip(leaves, r.stats):
            stats_by_bench.setdefault(w.case["path"], []).append((p, st))
        for c in opt_cases:
            b = benches[c["bench"]]
            calls, rows = expected_bench_mode(b, ncpu, runner)
            if c["ignore"]:
                calls, rows = 0, []   # effective ignore: shown as (ignored), never run
            if calls is None:
                res["excluded"] += 1
                continue
            got_calls = hits.get((str(b["id"]), c["arg"] if c["arg"] is not None else "-", c["type"] or "-", c["const"] or "-"), 0)
            if prop == "C03" or True:
                if got_calls != calls:
                    violation(res, dict(sig, **{"class": "call-count", "bench": c["path"].split("::")[2]}),
                              "%s: %s was called %d times; its effective options (sample_count %s, sample_size %s, threads %s over attribute levels %s) demand %d" % (
                                  desc, c["path"], got_calls, runner.get("sample_count", b["effective"].get("sample_count")), runner.get("sample_size", b["effective"].get("sample_size")),
                                  runner.get("threads", b["effective"].get("threads")), b["options"], calls), r)
                    continue
            got_rows = [(st["sample_count"], st["iter_count"]) for _, st in stats_by_bench.get(c["path"], [])]
            want_rows = [(sm, it) for _, sm, it in rows]
            if got_rows != want_rows:
                violation(res, dict(sig, **{"class": "samples-iters", "bench": c["path"].split("::")[2]}),
                          "%s: %s reports (samples, iters) %s per thread count, expected %s" % (desc, c["path"], got_rows, want_rows), r)
                continue
            # counters: runner over benchmark over nearest group, per kind
            effc = b["effective"].get("counters", {})
            want_counters = [runner.get("bytes", effc.get("bytes_count")), runner.get("chars", effc.get("chars_count")), runner.get("cycles", effc.get("cycles_count")), runner.get("items", effc.get("items_count"))]
            if b.get("style") == "counter":
                want_counters[3] = 7   # Bencher::counter(ItemsCount 7) replaces only its own kind
            if b.get("style") == "values":
                want_counters[0] = 3   # input_counter(BytesCount 3 per input) replaces only its own kind
            if b.get("style") == "values_chars":
                want_counters[1] = 4   # input_counter(CharsCount 3 + 1 per input)
            if b.get("style") == "refs_cycles_items":
                want_counters[2], want_counters[3] = 5, 10   # two per-input counters of different kinds
            for _, st in stats_by_bench.get(c["path"], []):
                if st["sample_count"] == 0:
                    continue
                got_counters = [cc["raw"][0] if cc is not None else None for cc in st["counters"]]
                if got_counters != want_counters:
                    violation(res, dict(sig, **{"class": "counters", "bench": c["path"].split("::")[2]}),
                              "%s: %s reports counters (bytes, chars, cycles, items) %s, its effective options demand %s" % (desc, c["path"], got_counters, want_counters), r)
                    break
    # effective ignore under the three flags
    ign_cases = [c for c in model["cases"] if c["path"].startswith("zoo::ign::")]
    for flag, fargv in FLAGS:
        r = run_zoo(binary, ["--test"] + fargv + ["^zoo::ign::"], timeout=300)
        count_run(res, r, len(r.log))
        want = sorted(c["path"] for c in ign_cases if runs_under(flag, c))
        got = [p for p in executed_paths(model, r) if p.startswith("zoo::ign::")]
        if want != got:
            violation(res, {"check": "ignore-e2e", "flag": flag}, "flag %s: executed %s..., effective ignore demands %s... (differences: %s)" % (flag, got[:3], want[:3], sorted(set(want) ^ set(got))[:5]), r)
        # the nextest listing resolves ignore through the same levels
        rl = run_zoo(binary, ["--list", "--format", "terse"] + fargv + ["^zoo::ign::"], {"NEXTEST": "1"}, timeout=120)
        count_run(res, rl, len(rl.out.splitlines()))
        listed = sorted(l[: -len(": benchmark")] for l in rl.out.split("\n") if l.endswith(": benchmark"))
        if listed != want:
            violation(res, {"check": "ignore-e2e-listing", "flag": flag}, "flag %s: the terse listing shows %s..., effective ignore (nearest level that sets it, other options never masking it) demands %s... (differences: %s)" % (flag, listed[:3], want[:3], sorted(set(want) ^ set(listed))[:5]), rl)
    res["distinct_outcomes"] = len(runner_sources)
    res["samples"] = [{"runner_sources": [x[0] for x in runner_sources]}, {"option_family_benches": len(opt_cases)}]
    res["bounds"] = {"attribute_levels": "benchmark and 3 nested groups: all 16 set/unset patterns for sample_count and for sample_size; threads / counters / zero cases; plus the pairwise feature family (every compatible pair of 21 item features)",
                     "runner_sources": len(runner_sources), "time_options": "max_time / min_time / skip_ext_time as Duration and float seconds at benchmark and group level, on the command line, in DIVAN_* variables and through the builder; exact round counts under the virtual clock (a call costs a fixed number of ticks, an input of the costly generator 3000)", "observed": ["calls per benchmark (invocation log)", "samples / iters per thread count (statistics tap + painted cells)", "counter kinds and values", "thread-count branches", "executed set under the three ignore flags"],
                     "excluded": "automatic sample size with several threads (clock readings depend on the schedule)", "tier_zoo": tier}
    res["wall_s"] = time.time() - t0
    return [res]


def check_c15(tier, seed, chk):
    return check_options(tier, seed, chk, "C15")


def check_c03(tier, seed, chk):
    out = check_options(tier, seed, chk, "C03")
    res = out[0]
    # The action asked for through the API (test_benches / run_benches) decides how often the function is
    # called, whatever action the Divan value was configured with by the command line.
    binary, model = ensure_built(tier, chk)
    ncpu = model["_ncpu"]
    benches = {b["id"]: b for b in model["benches"]}
    sel = [c for c in model["cases"] if c["path"].startswith("zoo::opt::") and runs_under("none", c)]
    routes = [
        ("test_benches() on a Divan configured for benchmarking (no action flag)", [], "from_args;test", "test"),
        ("test_benches() on a Divan configured with --bench", ["--bench"], "from_args;test", "test"),
        ("test_benches() on a Divan configured with --list", ["--list"], "from_args;test", "test"),
        ("run_benches() on a Divan configured with --test", ["--test", "--timer", "tsc"], "from_args;bench", "bench"),
        ("run_benches() on a Divan configured with --list", ["--list", "--timer", "tsc"], "from_args;bench", "bench"),
    ]

    def one(route):
        name, argv, mode, action = route
        return route, run_zoo(binary, argv + ["^zoo::opt::"], {"ZOO_MODE": mode}, clock=CLOCK, timeout=600)

    for (name, argv, mode, action), r in pmap(one, routes):
        count_run(res, r, len(r.log))
        sig = {"check": "requested-action", "requested": action, "configured": (argv or ["none"])[0]}
        if r.rc != 0:
            violation(res, dict(sig, **{"class": "crash"}), "%s: exit %s: %s" % (name, r.rc, r.err[-300:]), r)
            continue
        if action == "test":
            want, got = expected_records(model, sel), observed_records(r)
            if want != got:
                diff = sorted(set(want) ^ set(got))[:3]
                violation(res, dict(sig, **{"class": "call-count"}),
                          "%s: test mode calls each function once per thread; %d invocation records instead of %d, e.g. %s" % (name, len(got), len(want), diff), r)
        else:
            hits = {}
            for rec in r.log:
                if rec[0] == "HIT":
                    hits[tuple(rec[1:5])] = hits.get(tuple(rec[1:5]), 0) + 1
            for c in sel:
                b = benches[c["bench"]]
                calls, _rows = expected_bench_mode(b, ncpu, {})
                if calls is None or b.get("body") == "quiet":
                    continue
                got_calls = hits.get((str(b["id"]), c["arg"] if c["arg"] is not None else "-", c["type"] or "-", c["const"] or "-"), 0)
                if got_calls != calls:
                    violation(res, dict(sig, **{"class": "call-count"}),
                              "%s: %s was called %d times, its options demand %d" % (name, c["path"], got_calls, calls), r)
                    break
    res["bounds"]["requested_vs_configured_action"] = [x[0] for x in routes]
    return out


def _time_source(x):
    return x[0] == "none" or any(k in x[4] for k in ("max_time_ps", "min_time_ps", "skip_ext", "max_time_zero"))


def check_c04(tier, seed, chk):
    """End-to-end slice of the stop rule: time options from every source, exact round counts."""
    return check_options(tier, seed, chk, "C04", _time_source)


def check_c19(tier, seed, chk):
    """End-to-end slice of automatic sample sizes: tuned benchmarks with and without a budget."""
    return check_options(tier, seed, chk, "C19", lambda x: x[0] in ("none", "cli max_time tuned", "cli sample_count", "cli min_time"))


# ----------------------------------------------------------------------------------------
# C08 (real threads, supplementary) -- a panic on one thread ends the run, it does not hang
# ----------------------------------------------------------------------------------------

def check_c08(tier, seed, chk):
    binary, model = ensure_built(tier, chk)
    res = new_result("zoo-C08", tier)
    t0 = time.time()
    jobs = []
    for bench in ("panics_on_worker", "panics_on_caller"):
        for argv in (["--bench", "--timer", "tsc"], ["--test"]):
            jobs.append((bench, argv))

    def one(job):
        bench, argv = job
        return job, run_zoo(binary, argv + ["^zoo::pnc::%s$" % bench], {"ZOO_PANIC": "1"}, clock=CLOCK, timeout=60)

    for (bench, argv), r in pmap(one, jobs):
        count_run(res, r, 1)
        sig = {"check": "real-thread-panic", "bench": bench, "mode": argv[0]}
        if r.timeout:
            violation(res, dict(sig, **{"class": "hang"}), "zoo %s %s with a panicking thread did not terminate within 60 s (real threads)" % (" ".join(argv), bench), r)
        elif r.rc == 0 or "panicked" not in r.err:
            violation(res, dict(sig, **{"class": "no-panic"}), "zoo %s %s: a thread panicked but the run exited with %s and stderr %r" % (" ".join(argv), bench, r.rc, r.err[-300:]), r)
    res["samples"] = [{"real_thread_runs": [" ".join(j[1]) + " " + j[0] for j in jobs]}]
    res["bounds"] = {"note": "single real-thread executions of the compiled binary (one schedule each): supplementary to the loom exploration, which decides the property", "tier_zoo": tier}
    res["exhaustive"] = True
    res["wall_s"] = time.time() - t0
    return [res]


# ----------------------------------------------------------------------------------------
# C02 / C10 (end to end) -- exact allocation figures through the real global AllocProfiler
# ----------------------------------------------------------------------------------------

def bits_to_floats(bits):
    import struct
    return [struct.unpack("<d", struct.pack("<Q", b))[0] for b in bits]


def check_alloc(tier, seed, chk, prop):
    binary, model = ensure_built(tier, chk)
    res = new_result("zoo-" + prop, tier)
    t0 = time.time()
    cases = [c for c in model["cases"] if c["path"].startswith("zoo::alc::")]
    variants = [[], ["--sample-count", "5"], ["--threads", "1,2", "--sample-count", "4", "--sample-size", "3"], ["--sample-size", "1"]]

    def one(extra):
        return extra, run_zoo(binary, ["--bench", "--timer", "tsc"] + extra + ["^zoo::alc::"], want_stats=True, clock=CLOCK, timeout=300)

    for extra, r in pmap(one, variants):
        count_run(res, r, len(r.stats))
        desc = "zoo --bench --timer tsc %s ^zoo::alc::" % " ".join(extra)
        if r.rc != 0 or not r.stats:
            violation(res, {"check": "alloc-e2e", "class": "crash"}, "%s: exit %s, %d statistics blocks: %s" % (desc, r.rc, len(r.stats), r.err[-300:]), r)
            continue
        # statistics blocks come in display order: map them to their benchmarks through the model's tree
        runner = {"threads": [1, 2]} if "--threads" in extra else {}
        leaves = [w for _, w in tree_paths(expected_tree(model, cases, "bench", "none", "kind", False, runner)) if w.case is not None]
        if len(leaves) != len(r.stats):
            violation(res, {"check": "alloc-e2e", "class": "blocks"}, "%s: %d statistics blocks for %d displayed rows" % (desc, len(r.stats), len(leaves)), r)
            continue
        benches_by_id = {b["id"]: b for b in model["benches"]}
        for k, st in enumerate(r.stats):
            if st["sample_count"] == 0:
                continue
            style = benches_by_id[leaves[k].case["bench"]]["style"]
            ops = st["alloc_ops"]  # Grow, Shrink, Alloc, Dealloc
            got = {
                "alloc count": bits_to_floats(ops[2]["count_bits"]), "alloc bytes": bits_to_floats(ops[2]["size_bits"]),
                "dealloc count": bits_to_floats(ops[3]["count_bits"]), "grow count": bits_to_floats(ops[0]["count_bits"]), "shrink count": bits_to_floats(ops[1]["count_bits"]),
                "max alloc count": bits_to_floats(st["max_alloc"]["count_bits"]), "max alloc bytes": bits_to_floats(st["max_alloc"]["size_bits"]),
            }
            got["dealloc bytes"] = bits_to_floats(ops[3]["size_bits"])
            got["shrink bytes"] = bits_to_floats(ops[1]["size_bits"])
            zero = [0.0] * 4
            want = {"alloc count": zero, "alloc bytes": zero, "dealloc count": zero, "dealloc bytes": zero, "grow count": zero, "shrink count": zero, "shrink bytes": zero,
                    "max alloc count": zero, "max alloc bytes": zero}
            if style == "alloc_exact":
                what = "each benchmarked call makes exactly one 32-byte allocation on its own thread (the input's 64 bytes are allocated before the start, outputs are dropped after the end)"
                want = dict(want, **{"alloc count": [1.0] * 4, "alloc bytes": [32.0] * 4, "max alloc count": [1.0] * 4, "max alloc bytes": [32.0] * 4})
            elif style == "plain_alloc_out":
                size = float(benches_by_id[leaves[k].case["bench"]].get("alloc_size") or 32)
                what = "each call of the benchmarked function makes one %d-byte allocation and returns it; the output is dropped after the end of the sample" % size
                # (the outputs of one sample are all alive until its end: the peak is the sample size times one allocation, per iteration one)
                want = dict(want, **{"alloc count": [1.0] * 4, "alloc bytes": [size] * 4, "max alloc count": [1.0] * 4, "max alloc bytes": [size] * 4})
            elif style == "values_free_only":
                what = "each benchmarked call only frees its 64-byte input (the peak relative to the start stays zero)"
                want = dict(want, **{"dealloc count": [1.0] * 4, "dealloc bytes": [64.0] * 4})
            elif style == "refs_shrink_only":
                what = "each benchmarked call only shrinks its input's buffer from 64 to 8 bytes"
                want = dict(want, **{"shrink count": [1.0] * 4, "shrink bytes": [56.0] * 4})
            else:
                continue
            bad = {f: (got[f], want[f]) for f in want if any(abs(a - b) > 1e-9 for a, b in zip(got[f], want[f]))}
            if bad:
                f0 = sorted(bad)[0]
                violation(res, {"check": "alloc-e2e", "class": "figures", "field": f0},
                          "%s: statistics block %d (samples %d, iters %d): %s, but (fastest, slowest, median, mean) per iteration are %s" % (
                              desc, k, st["sample_count"], st["iter_count"], what, {f: bad[f][0] for f in bad}), r)
    res["samples"] = [{"variants": [" ".join(v) for v in variants], "benches": [c["path"] for c in cases]}]
    res["bounds"] = {"note": "real global AllocProfiler, real threads (T = 1 and 2), virtual clock; exact expected figures per iteration", "runs": len(variants), "tier_zoo": tier}
    res["wall_s"] = time.time() - t0
    return [res]


# ----------------------------------------------------------------------------------------
# C18 (end to end) -- the byte format reaches the printed cells as configured, by every route
# ----------------------------------------------------------------------------------------

def check_c18(tier, seed, chk):
    binary, model = ensure_built(tier, chk)
    res = new_result("zoo-C18", tier)
    t0 = time.time()
    base = ["--bench", "--timer", "tsc", "--sample-count", "2", "--sample-size", "2", "--bytes-count", "1500000", "--items-count", "2500000"]
    routes = [
        ("default", [], {}, None, "decimal"),
        ("cli binary", ["--bytes-format", "binary"], {}, None, "binary"),
        ("cli decimal", ["--bytes-format", "decimal"], {}, None, "decimal"),
        ("env binary", [], {"DIVAN_BYTES_FORMAT": "binary"}, None, "binary"),
        ("cli decimal over env binary", ["--bytes-format", "decimal"], {"DIVAN_BYTES_FORMAT": "binary"}, None, "decimal"),
        ("builder binary after the arguments", [], {}, "from_args;bytes_format=binary;main", "binary"),
        ("builder binary before the arguments", [], {}, "default;bytes_format=binary;config_with_args;main", "binary"),
        ("builder binary, decimal on the command line", ["--bytes-format", "decimal"], {}, "default;bytes_format=binary;config_with_args;main", "decimal"),
    ]

    def one(route):
        name, argv, env, mode, want = route
        e = dict(env)
        if mode:
            e["ZOO_MODE"] = mode
        return route, run_zoo(binary, base + argv + ["^zoo::(alc|f00)"], e, clock=CLOCK, timeout=300)

    for (name, argv, env, mode, want), r in pmap(one, routes):
        count_run(res, r, len(r.out.splitlines()))
        sig = {"check": "bytes-format-route", "route": name}
        if r.rc != 0:
            violation(res, dict(sig, **{"class": "crash"}), "route %s exited with %s: %s" % (name, r.rc, r.err[-300:]), r)
            continue
        cells = [c.strip() for line in r.out.splitlines() for c in line.split("│")]
        dec = [c for c in cells if re.search(r"\d (K|M|G|T|P)B(/s)?$", c)]
        bin_ = [c for c in cells if re.search(r"\d (Ki|Mi|Gi|Ti|Pi)B(/s)?$", c)]
        other = [c for c in cells if re.search(r"\d (K|M|G|T|P)i(item|char)/s$|\d (K|M|G)iHz$", c)]
        if other:
            violation(res, dict(sig, **{"class": "binary-prefix-on-non-bytes"}), "route %s: non-byte throughputs carry binary prefixes: %s" % (name, other[:3]), r)
        wrong, right = (dec, bin_) if want == "binary" else (bin_, dec)
        if wrong or not right:
            violation(res, dict(sig, **{"class": "prefix-family"}),
                      "byte format %s configured through `%s`: byte sizes / throughputs are printed with the other family of prefixes %s (cells of the configured family: %d)" % (want, name, wrong[:3], len(right)), r)
    # every printed cell of the allocation family (byte sizes with awkward magnitudes among them) equals the real
    # formatter's rendering of the figure computed for that benchmark, under both byte formats
    alc = [c for c in model["cases"] if c["path"].startswith("zoo::alc::")]
    for name, argv in (("cells decimal", []), ("cells binary", ["--bytes-format", "binary"])):
        r = run_zoo(binary, ["--bench", "--timer", "tsc", "--sample-count", "2", "--sample-size", "2"] + argv + ["^zoo::alc::"], want_stats=True, clock=CLOCK, timeout=300)
        count_run(res, r, len(r.out.splitlines()))
        sig = {"check": "allocation-cells", "route": name}
        if r.rc != 0:
            violation(res, dict(sig, **{"class": "crash"}), "%s exited with %s: %s" % (name, r.rc, r.err[-300:]), r)
            continue
        roots, errors, header = parse_tree(r.out, True)
        if errors:
            violation(res, dict(sig, **{"class": "malformed"}), "%s: the output cannot be parsed back into a tree: %s" % (name, errors[:3]), r)
            continue
        want_root = expected_tree(model, alc, "bench", "none", "kind", False, {"sample_count": 2, "sample_size": 2})
        compare_tree(res, sig, "zoo --bench %s ^zoo::alc::" % " ".join(argv), r, roots, want_root, True, r.stats, check_stats=True)
    res["distinct_outcomes"] = len(routes)
    res["samples"] = [{"routes": [x[0] for x in routes]}]
    res["bounds"] = {"routes": len(routes), "observed": "prefix family (KB.. vs KiB..) of every byte size / byte throughput cell of the forms and allocation families; non-byte throughputs never binary", "tier_zoo": tier}
    res["wall_s"] = time.time() - t0
    return [res]


def check_c02(tier, seed, chk):
    return check_alloc(tier, seed, chk, "C02")


def check_c10(tier, seed, chk):
    return check_alloc(tier, seed, chk, "C10")


CHECKS = {"C02": check_c02, "C10": check_c10, "C12": check_c12, "C13": check_c13, "C14": check_c14, "C17": check_c17, "C20": check_c20, "C16": check_c16, "C15": check_c15, "C03": check_c03, "C08": check_c08, "C04": check_c04, "C19": check_c19, "C18": check_c18}


def run(job, tier, seed, chk):
    fn = CHECKS.get(job["prop"])
    if fn is None:
        raise Machinery("engine Z has no check for %s" % job["prop"])
    return fn(job.get("zoo_tier", tier), seed, chk)


def replay(body, chk):
    """Re-runs the property's whole zoo check (the oracle needs the model) and returns the
    violations that carry the recorded signature."""
    prop = body["property"]
    tier = body.get("engine", {}).get("tier", "quick")
    results = CHECKS[prop](tier, 0, chk)
    same = [v for r in results for v in r["violations"] if v["sig"] == body["sig"]]
    return (1 if same else 0), same
