"""Engine Z driver (generated benchmark crate run as a black box). Filled in later."""


def setup(chk):
    return


def run(job, tier, seed, chk):
    raise chk.Machinery("engine Z not built yet")


def replay(body, chk):
    raise chk.Machinery("engine Z not built yet")
