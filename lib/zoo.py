"""Engine Z driver: the generated zoo crate, built with the real macros from /repo's working
tree (hooks on), run as a black box. Oracles compare observed stdout / entry dump /
invocation log / statistics tap with the generator's reference model."""
import concurrent.futures as cf
import json
import os
import re
import subprocess
import tempfile
import time

from common import Machinery
import zoogen

ROOT = os.path.dirname(os.path.dirname(os.path.abspath(__file__)))
NCPU = os.cpu_count() or 4

_state = {}


def zoo_dir(tier):
    return os.path.join(ROOT, "harness", "zoo-" + tier)


def target_dir(tier):
    return os.path.join(ROOT, "target-zoo", tier)


def ensure_built(tier, chk):
    """Generates (idempotently) and builds the zoo of this tier. Returns (binary, model)."""
    if tier in _state:
        return _state[tier]
    zoogen.ZOO = zoo_dir(tier)
    model = zoogen.generate(tier)
    env = chk.env_base()
    env["CARGO_TARGET_DIR"] = target_dir(tier)
    p = subprocess.run(["cargo", "build", "--offline"], cwd=zoo_dir(tier), env=env, stdout=subprocess.PIPE,
                       stderr=subprocess.PIPE, text=True, timeout=3600)
    if p.returncode != 0:
        tail = "\n".join(l for l in p.stderr.splitlines() if not l.startswith("warning"))[-4000:]
        raise Machinery("zoo build failed (tier %s):\n%s" % (tier, tail))
    binary = os.path.join(target_dir(tier), "debug", "zoo")
    _state[tier] = (binary, model)
    return _state[tier]


def setup(chk):
    ensure_built("quick", chk)


def clean_env():
    env = {"PATH": os.environ.get("PATH", "/usr/bin:/bin"), "HOME": os.environ.get("HOME", "/root"), "RUST_BACKTRACE": "0",
           "NO_COLOR": "1", "TERM": "dumb", "COLUMNS": "200"}
    return env


class Run:
    pass


def run_zoo(binary, argv, env_extra=None, want_log=True, want_dump=False, want_stats=False, timeout=120, clock=None):
    """One black-box run. Returns Run with rc, out, err, log (list of tab-split records), dump, stats."""
    env = clean_env()
    tmp = tempfile.mkdtemp(prefix="zoo")
    if want_log:
        env["ZOO_LOG"] = os.path.join(tmp, "log")
    if want_dump:
        env["ZOO_DUMP"] = os.path.join(tmp, "dump")
    if want_stats:
        env["DIVAN_VERIF_STATS"] = os.path.join(tmp, "stats")
    if clock is not None:
        env["DIVAN_VERIF_CLOCK"] = clock
    env.update(env_extra or {})
    r = Run()
    r.argv = argv
    r.env = {k: v for k, v in env.items() if k not in ("PATH", "HOME", "ZOO_LOG", "ZOO_DUMP", "DIVAN_VERIF_STATS", "TERM", "COLUMNS", "RUST_BACKTRACE", "NO_COLOR")}
    try:
        p = subprocess.run([binary] + argv, env=env, stdout=subprocess.PIPE, stderr=subprocess.PIPE, timeout=timeout, cwd=tmp)
        r.rc, r.out, r.err, r.timeout = p.returncode, p.stdout.decode("utf-8", "replace"), p.stderr.decode("utf-8", "replace"), False
    except subprocess.TimeoutExpired as e:
        r.rc, r.out, r.err, r.timeout = None, (e.stdout or b"").decode("utf-8", "replace"), (e.stderr or b"").decode("utf-8", "replace"), True
    r.log, r.dump, r.stats = [], [], []
    for name in ("log", "dump", "stats"):
        path = os.path.join(tmp, name)
        if os.path.exists(path):
            text = open(path).read()
            if name == "log":
                r.log = [l.split("\t") for l in text.splitlines() if l]
            else:
                setattr(r, name, [json.loads(l) for l in text.splitlines() if l])
            os.unlink(path)
    try:
        os.rmdir(tmp)
    except OSError:
        pass
    return r


def pmap(fn, items, workers=None):
    with cf.ThreadPoolExecutor(max_workers=workers or NCPU) as ex:
        return list(ex.map(fn, items))


def new_result(name, tier="quick"):
    return {"name": name, "states": 0, "transitions": 0, "traces_validated_against_impl": 0, "evaluations": 0, "excluded": 0,
            "distinct_outcomes": 0, "exhaustive": True, "samples": [], "violations": [], "bounds": {}, "wall_s": 0.0,
            "_engine": {"engine": "Z", "tier": tier}}


def violation(res, sig, text, run=None, extra=None):
    for v in res["violations"]:
        if v["sig"] == sig:
            return
    if len(res["violations"]) >= 40:
        return
    case = {"argv": run.argv if run else None, "env": run.env if run else None}
    case.update(extra or {})
    res["violations"].append({"sig": sig, "text": text, "case": case})


def count_run(res, r, steps=1):
    res["states"] += 1
    res["transitions"] += max(1, steps)
    res["traces_validated_against_impl"] += 1
    res["evaluations"] += 1


# ----------------------------------------------------------------------------------------
# Parsing
# ----------------------------------------------------------------------------------------

GLYPH = re.compile(r"^((?:│  |   )*)(├─ |╰─ )?(.*)$")


class Node:
    def __init__(self, name, depth, line_no, last, rest, raw):
        self.name, self.depth, self.line_no, self.last, self.rest, self.raw = name, depth, line_no, last, rest, raw
        self.children = []
        self.cont = []   # continuation rows (throughput / alloc) belonging to this node
        self.prefix = ""

    def path(self, parent=""):
        return self.name if not parent else parent + "::" + self.name


def parse_tree(out, has_columns):
    """Rebuilds the tree from indentation and glyphs alone. Returns (roots, errors, header)."""
    errors = []
    roots = []
    stack = []  # nodes by depth
    header = None
    lines = out.split("\n")
    for no, line in enumerate(lines, 1):
        if line.strip() == "":
            continue
        mt = GLYPH.match(line)
        prefix, branch, rest = mt.group(1), mt.group(2), mt.group(3)
        if branch is None:
            if prefix == "" and not line.startswith(" ") and not line.startswith("│"):
                # top-level node
                name, cells = split_cells(rest, has_columns)
                node = Node(name, 0, no, True, cells, line)
                roots.append(node)
                stack = [node]
                if has_columns and header is None:
                    header = cells
                continue
            # continuation row: belongs to the most recent leaf
            if not stack:
                errors.append("line %d: continuation row before any node: %r" % (no, line))
                continue
            stack[-1].cont.append((no, line))
            continue
        depth = len(prefix) // 3 + 1
        if depth > len(stack):
            errors.append("line %d: node at depth %d without a parent at depth %d: %r" % (no, depth, depth - 1, line))
            continue
        name, cells = split_cells(rest, has_columns)
        node = Node(name, depth, no, branch == "╰─ ", cells, line)
        node.prefix = prefix
        parent = stack[depth - 1]
        # well-formedness: a vertical bar exactly under ancestors that have later siblings
        for d in range(1, depth):
            seg = prefix[(d - 1) * 3:(d - 1) * 3 + 3]
            anc = stack[d]
            want = "   " if anc.last else "│  "
            if seg != want:
                errors.append("line %d: column %d holds %r under ancestor %r which %s later siblings" % (no, d, seg, anc.name, "has no" if anc.last else "has"))
        if parent.children and parent.children[-1].last:
            errors.append("line %d: %r follows a sibling drawn with the last-child corner" % (no, name))
        parent.children.append(node)
        del stack[depth:]
        stack.append(node)
    # every last child must be drawn with a corner
    def check_last(n):
        if n.children and not n.children[-1].last:
            errors.append("line %d: %r is the last child of %r but is drawn with a branch" % (n.children[-1].line_no, n.children[-1].name, n.name))
        for c in n.children:
            check_last(c)
    for r in roots:
        check_last(r)
    return roots, errors, header


def split_cells(rest, has_columns):
    """Splits 'name   cell │ cell │ ...' into (name, [cells])."""
    if not has_columns or "│" not in rest:
        if rest.endswith("(ignored)"):
            return rest[: -len("(ignored)")].rstrip(), ["(ignored)"]
        return rest.rstrip(), []
    first, *others = rest.split("│")
    # the name is separated from the first cell by at least two spaces
    mt = re.match(r"^(.*?)(?:\s{2,}(\S.*?))?\s*$", first)
    name = mt.group(1).rstrip()
    c0 = (mt.group(2) or "").strip()
    return name, [c0] + [o.strip() for o in others]


def flatten(nodes, parent=""):
    out = []
    for n in nodes:
        p = n.path(parent)
        out.append((p, n))
        out.extend(flatten(n.children, p))
    return out


# ----------------------------------------------------------------------------------------
# Reference helpers
# ----------------------------------------------------------------------------------------

def expected_records(model, cases, test_mode=True):
    """Log records a run of exactly `cases` must produce in test mode: per case one HIT (and one
    ENTER for Bencher-form functions), keyed (kind, bench id, arg, type, const)."""
    benches = {b["id"]: b for b in model["benches"]}
    want = []
    for c in cases:
        b = benches[c["bench"]]
        key = (str(b["id"]), c["arg"] if c["arg"] is not None else "-", c["type"] or "-", c["const"] or "-")
        if b["form"] == "bencher":
            want.append(("ENTER",) + key)
        if b.get("body") != "quiet":
            want.append(("HIT",) + key)
    return sorted(want)


def observed_records(run):
    return sorted(tuple(r[:5]) for r in run.log if r[0] in ("HIT", "ENTER"))


def selected(cases, positives=(), skips=(), exact=False):
    def hit(f, p):
        return (f == p) if exact else (re.search(f, p) is not None)
    out = []
    for c in cases:
        if any(hit(f, c["path"]) for f in skips):
            continue
        if positives and not any(hit(f, c["path"]) for f in positives):
            continue
        out.append(c)
    return out


def filter_argv(positives, skips, exact):
    argv = list(positives)
    for s in skips:
        argv += ["--skip", s]
    if exact:
        argv.append("--exact")
    return argv


# ----------------------------------------------------------------------------------------
# C12
# ----------------------------------------------------------------------------------------

def check_c12(tier, seed, chk):
    binary, model = ensure_built(tier, chk)
    res = new_result("zoo-C12", tier)
    t0 = time.time()
    cases = model["cases"]

    # (i) entry dump vs prediction
    r = run_zoo(binary, ["--list"], want_dump=True)
    count_run(res, r, len(r.dump))
    if r.rc != 0:
        violation(res, {"check": "dump", "class": "crash"}, "zoo --list exited with %s: %s" % (r.rc, r.err[-400:]), r)
    want_entries = []
    for b in model["benches"]:
        mp = "::".join(["zoo"] + b["module"])
        opts = b["options"]
        ign = b["ignore"]
        if b["types"] is None and b["consts"] is None:
            want_entries.append(("bench", b["raw_name"], b["display_name"], mp, b["line"], b["col"], json.dumps(b["args"]), "null", ign, opts.get("sample_count"), opts.get("sample_size")))
        else:
            types, consts = b["types"], b["consts"]
            if (types is not None and consts is None and len(types) == 0) or (consts is not None and types is None and len(consts) == 0):
                continue  # `types = []` / `consts = []` alone register nothing
            if types is not None and consts is not None:
                g = [[{"type": t, "const": c, "args": b["args"]} for c in consts] for t in types]
            elif types is not None:
                g = [[{"type": t, "const": None, "args": b["args"]} for t in types]]
            else:
                g = [[{"type": None, "const": c, "args": b["args"]} for c in consts]]
            want_entries.append(("group", b["raw_name"], b["display_name"], mp, b["line"], b["col"], "null", json.dumps(g), ign, opts.get("sample_count"), opts.get("sample_size")))
    for g in model["groups"]:
        mp = "::".join(["zoo"] + g["module"])
        want_entries.append(("group", g["raw_name"], g["display_name"], mp, g["line"], g["col"], "null", "null", g["ignore"], g["options"].get("sample_count"), g["options"].get("sample_size")))
    got_entries = []
    for e in r.dump:
        o = e["options"] or {}
        got_entries.append((e["kind"], e["raw_name"], e["display_name"], e["module_path"], e["line"], e["col"],
                            json.dumps(e.get("args")), json.dumps(e.get("generic")), o.get("ignore"),
                            str(o["sample_count"]) if o.get("sample_count") is not None else None,
                            str(o["sample_size"]) if o.get("sample_size") is not None else None))
    ws, gs = sorted(want_entries, key=str), sorted(got_entries, key=str)
    if ws != gs:
        missing = [w for w in ws if w not in gs]
        extra = [g for g in gs if g not in ws]
        dup = len(gs) != len(set(map(str, gs)))
        klass = "duplicate" if dup and not missing else ("missing" if missing and not extra else ("extra" if extra and not missing else "differs"))
        violation(res, {"check": "registered-entries", "class": klass},
                  "registered entries differ from the program: missing %s; unexpected %s" % (missing[:3], extra[:3]), r)
    res["samples"].append({"registered_entries": len(r.dump), "example": r.dump[0] if r.dump else None})

    # (ii) --list tree vs prediction (entries, generic instantiations as children; no args)
    roots, errors, _ = parse_tree(r.out, False)
    if errors:
        violation(res, {"check": "list", "class": "malformed-tree"}, "the --list tree cannot be parsed back: %s" % errors[:3], r)
    want_nodes = set()
    for c in cases:
        parts = c["path"].split("::")
        if c["arg"] is not None:
            parts = parts[:-1]
        want_nodes.add("::".join(parts))
    got_leaves = set(p for p, n in flatten(roots) if not n.children)
    if got_leaves != want_nodes and not errors:
        violation(res, {"check": "list", "class": "entries"}, "--list shows leaves %s..., the program defines %s..." % (sorted(got_leaves - want_nodes)[:4], sorted(want_nodes - got_leaves)[:4]), r)

    # (iii) terse list of everything (ignore resolution is C14's / C15's subject, not C12's)
    r2 = run_zoo(binary, ["--list", "--format", "terse", "--include-ignored"], {"NEXTEST": "1"})
    count_run(res, r2, len(r2.out.splitlines()))
    want_lines = sorted(c["path"] + ": benchmark" for c in cases)
    got_lines = sorted(l for l in r2.out.splitlines() if l.strip())
    if want_lines != got_lines:
        violation(res, {"check": "terse", "class": "cases"}, "terse listing differs from the program's cases: unexpected %s, missing %s" % (
            [l for l in got_lines if l not in want_lines][:4], [l for l in want_lines if l not in got_lines][:4]), r2)

    # (iv) a full test run executes every case exactly once
    r3 = run_zoo(binary, ["--test", "--include-ignored"], timeout=600)
    count_run(res, r3, len(r3.log))
    if r3.rc != 0:
        violation(res, {"check": "run", "class": "crash"}, "zoo --test --include-ignored exited with %s: %s" % (r3.rc, r3.err[-600:]), r3)
    want = expected_records(model, cases)
    got = observed_records(r3)
    if want != got:
        missing = [w for w in want if w not in got]
        extra = [g for g in got if g not in want]
        twice = sorted(set(g for g in got if got.count(g) > want.count(g)))
        klass = "ran-twice" if twice and not missing else ("not-run" if missing and not extra else "wrong-identity")
        violation(res, {"check": "run", "class": klass}, "a full test run must invoke every case exactly once: not invoked %s; unexpected %s; more often than expected %s" % (missing[:4], extra[:4], twice[:4]), r3)
    # args expressions evaluated once per process, per function
    evals = {}
    for rec in r3.log:
        if rec[0] == "ARGS":
            evals[rec[1]] = evals.get(rec[1], 0) + 1
    bad = {k: v for k, v in evals.items() if v != 1}
    want_ids = set(str(b["id"]) for b in model["benches"] if b["args"] is not None and b["args_kind"] != "empty" and not (b["types"] == [] or b["consts"] == []))
    if bad or set(evals) != want_ids:
        violation(res, {"check": "args-evaluated-once"}, "args expressions must be evaluated exactly once per function and process: counts %s, never evaluated %s" % (bad, sorted(want_ids - set(evals))[:5]), r3)
    res["samples"].append({"cases": len(cases), "test_run_records": len(got), "example_case": cases[len(cases) // 2]})
    res["distinct_outcomes"] = len(set(got))
    res["bounds"] = {"benches": len(model["benches"]), "groups": len(model["groups"]), "cases": len(cases), "tier_zoo": tier,
                     "observations": ["entry dump through __private lists", "--list tree", "terse listing", "invocation log of --test --include-ignored"]}
    res["wall_s"] = time.time() - t0
    return [res]


# ----------------------------------------------------------------------------------------
# Shared: what a run with given filters / ignore flag must execute and show
# ----------------------------------------------------------------------------------------

FLAGS = [("none", []), ("ignored", ["--ignored"]), ("include", ["--include-ignored"])]


def runs_under(flag, case):
    return {"none": not case["ignore"], "ignored": case["ignore"], "include": True}[flag]


def log_is_silent(run):
    return [r for r in run.log if r[0] in ("HIT", "ENTER", "AUX")]


def shown_leaves(model, sel, flag):
    """Leaf paths a --test / bench run displays for the selected cases: one per executed case; a
    benchmark that is skipped as ignored is one `(ignored)` leaf without argument children."""
    benches = {b["id"]: b for b in model["benches"]}
    out = set()
    for c in sel:
        if runs_under(flag, c):
            out.add(c["path"])
        else:
            parts = c["path"].split("::")
            out.add("::".join(parts[:-1]) if c["arg"] is not None else c["path"])
    return out


FILTER_ALPHABET = ["ign", "^zoo::f00", "a_", "g_t", "inherited", "::1$", "m::", "(TA|x)$", "zoo::nest::a::same", "Shown As"]


def filter_sets(tier, model):
    sets = [((), (), False)]
    alpha = FILTER_ALPHABET
    for f in alpha:
        sets.append(((f,), (), False))
        sets.append(((), (f,), False))
    import itertools
    pairs = list(itertools.combinations(alpha, 2))
    for i, (a, b) in enumerate(pairs):
        if tier == "thorough" or i % 5 == 0:
            sets.append(((a, b), (), False))
            sets.append(((a,), (b,), False))
            sets.append(((b,), (a,), False))
            sets.append(((), (a, b), False))
    if tier == "thorough":
        for a, b in pairs[::3]:
            for c, d in pairs[1::7]:
                sets.append(((a, b), (c, d), False))
    # exact filters: whole paths (a case, a case with argument, an inner node, a non-path)
    paths = [c["path"] for c in model["cases"]]
    ex = [paths[0], paths[len(paths) // 3], next(p for p in paths if p.endswith("::1")), "zoo::ign::ig", "zoo", "nothing"]
    for e in ex:
        sets.append(((e,), (), True))
        sets.append(((), (e,), True))
    sets.append(((ex[0], ex[1]), (ex[1],), True))
    sets.append(((ex[0], ex[2]), (), True))
    return sets


# ----------------------------------------------------------------------------------------
# C13 (end to end) -- selection through the command line
# ----------------------------------------------------------------------------------------

def check_c13(tier, seed, chk):
    binary, model = ensure_built(tier, chk)
    res = new_result("zoo-C13", tier)
    t0 = time.time()
    cases = model["cases"]
    sets = filter_sets(tier, model)

    def one(fs):
        pos, skip, exact = fs
        return fs, run_zoo(binary, ["--test", "--include-ignored"] + filter_argv(pos, skip, exact), timeout=300)

    outcomes = set()
    for fs, r in pmap(one, sets):
        pos, skip, exact = fs
        sel = selected(cases, pos, skip, exact)
        count_run(res, r, len(r.log))
        sig_base = {"check": "cli-filter", "exact": exact, "positives": min(len(pos), 2), "skips": min(len(skip), 2)}
        if r.rc != 0:
            violation(res, dict(sig_base, **{"class": "crash"}), "zoo --test with filters %s/%s exited with %s: %s" % (pos, skip, r.rc, r.err[-300:]), r)
            continue
        want, got = expected_records(model, sel), observed_records(r)
        if want != got:
            extra = [g for g in got if g not in want]
            missing = [w for w in want if w not in got]
            violation(res, dict(sig_base, **{"class": "ran-unselected" if extra else "did-not-run"}),
                      "filters positive=%s skip=%s exact=%s: executed cases differ from the rule: unexpected %s, missing %s" % (list(pos), list(skip), exact, extra[:4], missing[:4]), r)
            continue
        roots, errors, _ = parse_tree(r.out, False)
        shown = set(p for p, n in flatten(roots) if not n.children)
        want_shown = shown_leaves(model, sel, "include")
        if shown != want_shown:
            violation(res, dict(sig_base, **{"class": "shown"}),
                      "filters positive=%s skip=%s exact=%s: displayed cases differ from the selected ones: unexpected %s, missing %s" % (list(pos), list(skip), exact, sorted(shown - want_shown)[:4], sorted(want_shown - shown)[:4]), r)
        parents = set(p for p, n in flatten(roots) if n.children)
        want_parents = set()
        for p in want_shown:
            parts = p.split("::")
            for k in range(1, len(parts)):
                want_parents.add("::".join(parts[:k]))
        if parents != want_parents and shown == want_shown:
            violation(res, dict(sig_base, **{"class": "parents"}), "filters positive=%s skip=%s: group / module nodes shown %s differ from those with a selected case below" % (list(pos), list(skip), sorted(parents ^ want_parents)[:5]), r)
        outcomes.add(len(sel))
    res["distinct_outcomes"] = len(outcomes)
    res["samples"] = [{"filter_set": {"positive": list(s[0]), "skip": list(s[1]), "exact": s[2]}, "selected_cases": len(selected(cases, *s))} for s in sets[1:40:9]]
    res["bounds"] = {"filter_sets": len(sets), "filter_alphabet": FILTER_ALPHABET, "cases": len(cases), "mode": "--test --include-ignored", "tier_zoo": tier}
    res["wall_s"] = time.time() - t0
    return [res]


# ----------------------------------------------------------------------------------------
# C14 -- listing runs nothing and agrees with what a run would execute
# ----------------------------------------------------------------------------------------

def check_c14(tier, seed, chk):
    binary, model = ensure_built(tier, chk)
    res = new_result("zoo-C14", tier)
    t0 = time.time()
    cases = model["cases"]
    sets = filter_sets("quick", model) if tier == "quick" else filter_sets("thorough", model)[::3]
    jobs = [(fs, flag) for fs in sets for flag in FLAGS]

    def one(job):
        (pos, skip, exact), (flag, fargv) = job
        fa = filter_argv(pos, skip, exact)
        a = run_zoo(binary, ["--list", "--format", "terse"] + fargv + fa, {"NEXTEST": "1"}, timeout=120)
        b = run_zoo(binary, ["--test"] + fargv + fa, timeout=300)
        c = run_zoo(binary, ["--list"] + fargv + fa, timeout=120)
        return job, a, b, c

    benches = {b["id"]: b for b in model["benches"]}
    outcomes = set()
    for job, a, b, c in pmap(one, jobs):
        (pos, skip, exact), (flag, fargv) = job
        desc = "filters positive=%s skip=%s exact=%s flag=%s" % (list(pos), list(skip), exact, flag)
        for r in (a, b, c):
            count_run(res, r, len(r.out.splitlines()))
        sigb = {"flag": flag, "filtered": bool(pos or skip)}
        for name, r in (("terse list", a), ("--list", c)):
            noisy = log_is_silent(r)
            if noisy:
                violation(res, dict(sigb, **{"check": "list-runs-nothing", "action": name}), "%s (%s) invoked benchmark code: %s" % (name, desc, noisy[:3]), r)
        if a.rc != 0 or b.rc != 0:
            violation(res, dict(sigb, **{"check": "crash"}), "%s: terse list exited %s, test run exited %s: %s" % (desc, a.rc, b.rc, (a.err + b.err)[-300:]), a)
            continue
        listed = [l for l in a.out.split("\n") if l.strip()]
        bad_lines = [l for l in listed if not l.endswith(": benchmark")]
        if bad_lines:
            violation(res, dict(sigb, **{"check": "terse-format"}), "%s: terse listing prints something other than `path: benchmark`: %r" % (desc, bad_lines[:3]), a)
        listed_paths = sorted(l[: -len(": benchmark")] for l in listed if l.endswith(": benchmark"))
        # cases the test run executed, mapped back to paths through the model
        executed = []
        recs = observed_records(b)
        for cse in cases:
            bn = benches[cse["bench"]]
            if bn.get("body") == "quiet":
                continue
            key = ("HIT", str(bn["id"]), cse["arg"] if cse["arg"] is not None else "-", cse["type"] or "-", cse["const"] or "-")
            executed += [cse["path"]] * recs.count(key)
        executed.sort()
        if listed_paths != executed:
            only_listed = [p for p in listed_paths if p not in executed]
            only_run = [p for p in executed if p not in listed_paths]
            dup = [p for p in set(listed_paths) if listed_paths.count(p) > 1]
            kind = "inherited-or-overridden" if any(any(g["ignore"] is not None for g in model["groups"] if "::".join(["zoo"] + g["module"] + [g["raw_name"]]) in p or g["display_name"] in p) for p in only_listed + only_run) else "direct"
            violation(res, dict(sigb, **{"check": "terse-vs-run", "ignore_source": kind, "listed_not_run": bool(only_listed), "run_not_listed": bool(only_run)}),
                      "%s: the terse listing and the test run disagree: listed but not run %s; run but not listed %s; listed twice %s" % (desc, only_listed[:4], only_run[:4], dup[:3]), a)
        outcomes.add((flag, len(listed_paths)))

    # Divan::list_benches through the builder
    for mode in ("default;list", "from_args;list", "from_args;run_ignored;list"):
        r = run_zoo(binary, [], {"ZOO_MODE": mode}, timeout=300)
        count_run(res, r, len(r.out.splitlines()))
        noisy = log_is_silent(r)
        if noisy:
            violation(res, {"check": "list-runs-nothing", "action": "Divan::list_benches"}, "Divan::list_benches() (%s) invoked benchmark code: %d invocations, e.g. %s" % (mode, len(noisy), noisy[:2]), r)

    # feeding every listed path back as the only --exact filter selects that case and no other
    r_all = run_zoo(binary, ["--list", "--format", "terse", "--include-ignored"], {"NEXTEST": "1"})
    listed = [l[: -len(": benchmark")] for l in r_all.out.split("\n") if l.endswith(": benchmark")]
    by_path = {}
    for cse in cases:
        by_path.setdefault(cse["path"], []).append(cse)

    def feed(path):
        return path, run_zoo(binary, ["--test", "--include-ignored", "--exact", path], timeout=120)

    step = 1 if tier == "thorough" or len(listed) < 400 else 2
    for path, r in pmap(feed, listed[::step]):
        count_run(res, r, len(r.log))
        want = expected_records(model, by_path.get(path, []))
        got = observed_records(r)
        if want != got or len(by_path.get(path, [])) != 1:
            violation(res, {"check": "exact-feedback", "has_arg": any(c["arg"] is not None for c in by_path.get(path, []))},
                      "--test --exact %r must run exactly the listed case: ran %s, expected %s" % (path, got[:4], want[:4]), r)
    res["distinct_outcomes"] = len(outcomes)
    res["samples"] = [{"terse_listing_lines": len(listed), "example": listed[:3]}, {"jobs": len(jobs), "example_job": {"filters": list(map(list, jobs[5][0][:2])), "flag": jobs[5][1][0]}}]
    res["bounds"] = {"filter_sets": len(sets), "flags": [f[0] for f in FLAGS], "runs_per_job": ["terse list", "--test", "--list"], "exact_feedback_paths": len(listed[::step]),
                     "builder_modes": 3, "cases": len(cases), "tier_zoo": tier}
    res["wall_s"] = time.time() - t0
    return [res]


# ----------------------------------------------------------------------------------------
# C17 -- each row is measured with the argument, constant and type it names
# ----------------------------------------------------------------------------------------

SORTS = [("--sort", "kind"), ("--sort", "name"), ("--sort", "location"), ("--sortr", "kind"), ("--sortr", "name"), ("--sortr", "location")]


def check_c17(tier, seed, chk):
    binary, model = ensure_built(tier, chk)
    res = new_result("zoo-C17", tier)
    t0 = time.time()
    cases = model["cases"]
    benches = {b["id"]: b for b in model["benches"]}
    by_path = {}
    for cse in cases:
        by_path.setdefault(cse["path"], []).append(cse)

    # (a) every case alone
    def alone(cse):
        return cse, run_zoo(binary, ["--test", "--include-ignored", "--exact", cse["path"]], timeout=120)

    generic_or_args = [c for c in cases if c["arg"] is not None or c["type"] or c["const"]]
    for cse, r in pmap(alone, generic_or_args):
        count_run(res, r, len(r.log))
        want = expected_records(model, [cse])
        got = observed_records(r)
        if want != got:
            b = benches[cse["bench"]]
            violation(res, {"check": "case-alone", "args_kind": b["args_kind"], "generic": bool(cse["type"] or cse["const"])},
                      "the case labelled %r ran with %s; its label demands argument %r, type %r, const %r" % (cse["path"], got[:3], cse["arg"], cse["type"], cse["const"]), r)

    # (b) whole families under every sort and under filters that keep strict subsets of the
    # arguments: the k-th displayed case must be the k-th invocation
    arg_benches = [b for b in model["benches"] if b["args"] and len(b["args"]) >= 2]
    if tier != "thorough":
        seen_kinds, keep = set(), []
        for b in arg_benches:
            key = (b["args_kind"], b["types"] is not None, b["consts"] is not None)
            if key not in seen_kinds:
                seen_kinds.add(key)
                keep.append(b)
        arg_benches = keep
    jobs = []
    for b in arg_benches:
        mine = [c for c in cases if c["bench"] == b["id"]]
        prefix = mine[0]["path"].rsplit("::", 1)[0] if not (b["types"] or b["consts"]) else None
        fam = "^zoo::" + "::".join(b["module"][:1]) + "::"
        labels = b["args"]
        subsets = [None]
        if len(labels) <= 4 or tier == "thorough":
            subsets += [("only", a) for a in labels[: 6]] + [("skip", a) for a in labels[: 6]]
        else:
            subsets += [("only", labels[0]), ("only", labels[-1]), ("skip", labels[1])]
        for sub in subsets:
            for sort in (SORTS if sub is None or tier == "thorough" else SORTS[1:5:3]):
                argv = ["--test", "--include-ignored", sort[0], sort[1], fam]
                keep_cases = mine
                if sub is not None:
                    kind, a = sub
                    esc = re.escape(a)
                    if kind == "only":
                        argv = ["--test", "--include-ignored", sort[0], sort[1], fam + ".*::" + esc + "$"]
                        keep_cases = [c for c in mine if c["arg"] == a]
                    else:
                        argv += ["--skip", "::" + esc + "$"]
                        keep_cases = [c for c in mine if c["arg"] != a]
                jobs.append((b, sub, sort, argv, keep_cases))

    def fam_run(job):
        return job, run_zoo(binary, job[3], timeout=120)

    for (b, sub, sort, argv, keep_cases), r in pmap(fam_run, jobs):
        count_run(res, r, len(r.log))
        sigb = {"check": "family-run", "args_kind": b["args_kind"], "subset": sub[0] if sub else "all", "sort": "%s %s" % sort}
        want = expected_records(model, keep_cases)
        got = observed_records(r)
        if want != got:
            violation(res, dict(sigb, **{"class": "identity"}), "%s %s, arguments kept: %s: invocations %s differ from the labelled cases %s" % (sort[0], sort[1], sub, got[:4], want[:4]), r)
            continue
        roots, errors, _ = parse_tree(r.out, False)
        shown = [p for p, n in flatten(roots) if not n.children]
        hits = [rec for rec in r.log if rec[0] == "HIT"]
        # map every hit back to its case path; order must equal display order
        order = []
        for rec in hits:
            for c in keep_cases:
                if (str(c["bench"]), c["arg"] if c["arg"] is not None else "-", c["type"] or "-", c["const"] or "-") == tuple(rec[1:5]):
                    order.append(c["path"])
                    break
        if order != shown:
            violation(res, dict(sigb, **{"class": "row-order"}), "%s %s, arguments kept: %s: rows are displayed as %s but were measured in the order %s" % (sort[0], sort[1], sub, shown[:6], order[:6]), r)
    res["distinct_outcomes"] = len(set(j[0]["args_kind"] for j in jobs))
    res["samples"] = [{"cases_run_alone": len(generic_or_args), "family_runs": len(jobs), "example_argv": jobs[len(jobs) // 2][3] if jobs else None}]
    res["bounds"] = {"cases_with_arg_type_or_const": len(generic_or_args), "arg_benches_in_family_runs": len(arg_benches), "sorts": ["%s %s" % s for s in SORTS],
                     "subsets": "all, every single argument, every all-but-one (first 6 labels)", "tier_zoo": tier,
                     "args_evaluated_once": "checked in the full run of C12 and here per process through the invocation log"}
    res["wall_s"] = time.time() - t0
    return [res]


CHECKS = {"C12": check_c12, "C13": check_c13, "C14": check_c14, "C17": check_c17}


def run(job, tier, seed, chk):
    fn = CHECKS.get(job["prop"])
    if fn is None:
        raise Machinery("engine Z has no check for %s" % job["prop"])
    return fn(job.get("zoo_tier", tier), seed, chk)


def replay(body, chk):
    """Re-runs the property's whole zoo check (the oracle needs the model) and returns the
    violations that carry the recorded signature."""
    prop = body["property"]
    tier = body.get("engine", {}).get("tier", "quick")
    results = CHECKS[prop](tier, 0, chk)
    same = [v for r in results for v in r["violations"] if v["sig"] == body["sig"]]
    return (1 if same else 0), same
