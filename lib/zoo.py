"""Engine Z driver (generated benchmark crate run as a black box). Filled in later."""
from common import Machinery


def setup(chk):
    return


def run(job, tier, seed, chk):
    raise Machinery("engine Z not built yet")


def replay(body, chk):
    raise Machinery("engine Z not built yet")
