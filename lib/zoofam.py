"""Further zoo families (options levels, sort order, tree shapes). Filled in step by step."""


def more_families(m, tier, add_bench, open_mod, close_mod):
    return
