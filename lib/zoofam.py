"""Further zoo families: tree shapes (C20), sort order (C16), option levels (C15/C03), threads and
panics (C08 end-to-end)."""

LEAF_KINDS = ["bench", "args2", "ignored", "threads12", "counter", "quiet", "values", "named_wide", "named_unicode"]


def ordered_trees(n):
    """All ordered forests with exactly n nodes, as nested lists (a node = list of its children)."""
    if n == 0:
        return [[]]
    out = []
    # first tree of the forest has k nodes (root + forest of k-1), rest has n-k
    for k in range(1, n + 1):
        for sub in ordered_trees(k - 1):
            for rest in ordered_trees(n - k):
                out.append([sub] + rest)
    return out


def family_shapes(m, tier, add_bench, open_mod, close_mod):
    max_nodes = 6 if tier == "thorough" else 4
    names = ["a", "bbbbbbbb", "c3", "c12", "Zed", "q_q"]
    counter = [0]
    fam = 0
    for n in range(1, max_nodes + 1):
        for forest in ordered_trees(n):
            fam += 1
            top = "s%03d" % fam
            m.families[top] = "shapes"
            path = open_mod(m, [], 0, top)

            def emit(children, path, indent):
                for i, child in enumerate(children):
                    name = names[i % len(names)]
                    if child:  # internal node: module, every other one a group with a custom name
                        counter[0] += 1
                        group = None
                        if counter[0] % 3 == 0:
                            group = {"display": "grp %s" % name}
                        elif counter[0] % 3 == 1:
                            group = {}
                        p2 = open_mod(m, path, indent, "m_" + name, group=group)
                        emit(child, p2, indent + 4)
                        close_mod(m, indent)
                    else:
                        counter[0] += 1
                        kind = LEAF_KINDS[counter[0] % len(LEAF_KINDS)]
                        leaf(m, add_bench, path, indent, "l_" + name, kind, counter[0])

            emit(forest, path, 4)
            close_mod(m, 0)


def leaf(m, add_bench, path, indent, name, kind, salt):
    cost = 1000 + 137 * (salt % 11)
    if kind == "bench":
        return add_bench(m, path, indent, name, cost=cost)
    if kind == "args2":
        return add_bench(m, path, indent, name, args="strs", cost=cost)
    if kind == "ignored":
        return add_bench(m, path, indent, name, options=[("ignore", None)], cost=cost)
    if kind == "threads12":
        return add_bench(m, path, indent, name, options=[("threads", "[1, 2]")], cost=cost)
    if kind == "counter":
        return add_bench(m, path, indent, name, form="bencher", bencher_style="counter", options=[("bytes_count", "4096u32")], cost=cost)
    if kind == "quiet":
        return add_bench(m, path, indent, name, body="quiet", cost=cost)
    if kind == "values":
        return add_bench(m, path, indent, name, form="bencher", bencher_style="values", cost=cost)
    if kind == "named_wide":
        return add_bench(m, path, indent, name, name="a rather wide display name %d" % salt, cost=cost)
    if kind == "named_unicode":
        return add_bench(m, path, indent, name, name="ñandú %d" % salt, cost=cost)
    raise ValueError(kind)


def family_sort(m, tier, add_bench, open_mod, close_mod):
    """Sibling sets whose documented order differs per attribute (C16 end to end)."""
    top = "srt"
    m.families[top] = "sort"
    path = open_mod(m, [], 0, top)
    # declaration order deliberately scrambled w.r.t. both name and kind
    add_bench(m, path, 4, "b10")
    g = open_mod(m, path, 4, "a_mod")
    add_bench(m, g, 8, "z")
    add_bench(m, g, 8, "y2")
    add_bench(m, g, 8, "y10")
    close_mod(m, 4)
    add_bench(m, path, 4, "b2")
    add_bench(m, path, 4, "args_int", args="arr_i32_big")
    add_bench(m, path, 4, "args_neg", args="arr_neg")
    add_bench(m, path, 4, "args_f64", args="f64s")
    add_bench(m, path, 4, "args_str", args="string_arr")
    add_bench(m, path, 4, "gen_consts", consts=[10, 9, 100, 1])
    add_bench(m, path, 4, "gen_types", types=["TC", "TA", "TB"])
    add_bench(m, path, 4, "gen_tc", types=["TB", "TA"], consts=[20, 3])
    # constants sort by their own ordering: negatives, chars, bools
    add_bench(m, path, 4, "gen_i32", consts=["-3", "10", "2", "-20"], const_ty="i32")
    add_bench(m, path, 4, "gen_char", consts=["'b'", "'a'", "'Z'"], const_ty="char", const_labels_given=["b", "a", "Z"])
    add_bench(m, path, 4, "gen_bool", consts=["true", "false"], const_ty="bool")
    add_bench(m, path, 4, "gen_u128", consts=["340282366920938463463374607431768211455", "0", "18446744073709551616", "18446744073709551615"], const_ty="u128")
    add_bench(m, path, 4, "gen_i128", consts=["-170141183460469231731687303715884105728", "7", "-1", "-170141183460469231731687303715884105727"], const_ty="i128")
    g2 = open_mod(m, path, 4, "B_group", group={"display": "a0 shown first by name"})
    add_bench(m, g2, 8, "only")
    close_mod(m, 4)
    add_bench(m, path, 4, "A1")
    # ignored benchmarks are ordered like any other once they are run anyway (--ignored / --include-ignored)
    add_bench(m, path, 4, "ign_args_int", args="arr_i32_big", options=[("ignore", None)])
    add_bench(m, path, 4, "ign_args_str", args="string_arr", ignore_attr=True)
    add_bench(m, path, 4, "ign_gen_consts", consts=[10, 9, 100, 1], options=[("ignore", None)])
    gi = open_mod(m, path, 4, "ign_grp", group={"options": [("ignore", None)]})
    add_bench(m, gi, 8, "zz_inherits_args", args="arr_neg")
    add_bench(m, gi, 8, "b_inherits")
    add_bench(m, gi, 8, "a_own_false", options=[("ignore", "false")], args="f64s")
    close_mod(m, 4)
    close_mod(m, 0)


def family_options(m, tier, add_bench, open_mod, close_mod):
    """Options at the benchmark and at up to three nested group levels (C15, C03 end to end).
    Every level either sets sample_count (level-specific value) or not; sample_size likewise on
    a second set; observed through call counts."""
    top = "opt"
    m.families[top] = "options"
    path = open_mod(m, [], 0, top)
    k = 0
    # level values: outer 2, mid 3, inner 4, bench 5 for sample_count; sample_size 1 more
    for mask in range(16):
        for field in ("sample_count", "sample_size"):
            k += 1
            lv = {"outer": 2, "mid": 3, "inner": 4, "bench": 5}
            other = "sample_size" if field == "sample_count" else "sample_count"
            def opts(level, bit):
                o = []
                if mask & bit:
                    o.append((field, str(lv[level])))
                return o
            p0 = open_mod(m, path, 4, "o%02d" % k, group={"options": opts("outer", 1) + [(other, "2")]})
            p1 = open_mod(m, p0, 8, "mid", group={"options": opts("mid", 2)})
            p2 = open_mod(m, p1, 12, "inner", group={"options": opts("inner", 4)})
            add_bench(m, p2, 16, "b", options=opts("bench", 8), form="bencher")
            close_mod(m, 12)
            close_mod(m, 8)
            close_mod(m, 4)
    # other fields, set at one level each and inherited through a plain module
    g = open_mod(m, path, 4, "misc", group={"options": [("sample_count", "2"), ("sample_size", "3"), ("items_count", "7u32"), ("threads", "2")]})
    add_bench(m, g, 8, "inherits_all", form="bencher")
    add_bench(m, g, 8, "own_threads", form="bencher", options=[("threads", "[1]")])
    add_bench(m, g, 8, "own_counter", form="bencher", options=[("bytes_count", "9u32")])
    add_bench(m, g, 8, "own_items", form="bencher", options=[("items_count", "11u32")])
    C = "divan::counter::%sCount::new(%du32)"
    add_bench(m, g, 8, "counter_form", form="bencher", options=[("counter", C % ("Bytes", 6))])
    add_bench(m, g, 8, "counters_form", form="bencher", options=[("counters", "[%s, %s]" % (C % ("Items", 2), C % ("Chars", 9)))])
    add_bench(m, g, 8, "counters_and_named", form="bencher", options=[("counters", "[%s]" % (C % ("Cycles", 8))), ("bytes_count", "12u32")])
    gc2 = open_mod(m, g, 8, "counters_group", group={"options": [("counters", "[%s, %s]" % (C % ("Chars", 5), C % ("Items", 13)))]})
    add_bench(m, gc2, 12, "inherits_two_kinds", form="bencher")
    add_bench(m, gc2, 12, "own_chars", form="bencher", options=[("chars_count", "1u32")])
    add_bench(m, gc2, 12, "bencher_counter_items", form="bencher", bencher_style="counter")
    close_mod(m, 8)
    # per-input counters of the other kinds, next to inherited constant ones of the same and of other kinds
    add_bench(m, g, 8, "input_chars", form="bencher", bencher_style="values_chars")
    add_bench(m, g, 8, "input_chars_over_attr", form="bencher", bencher_style="values_chars", options=[("chars_count", "40u32")])
    add_bench(m, g, 8, "input_cycles_items", form="bencher", bencher_style="refs_cycles_items")
    pm = open_mod(m, g, 8, "plain")
    add_bench(m, pm, 12, "through_module", form="bencher")
    close_mod(m, 8)
    close_mod(m, 4)
    g = open_mod(m, path, 4, "r#loop", group={"display": "raw loop", "options": [("sample_count", "3"), ("sample_size", "2")]})
    add_bench(m, g, 8, "inherits_from_raw_group", form="bencher")
    pm = open_mod(m, g, 8, "r#mod")
    add_bench(m, pm, 12, "deeper", form="bencher", options=[("sample_size", "1")])
    close_mod(m, 8)
    close_mod(m, 4)
    # a benchmark function next to a same-named group module (different namespaces): the group's options
    # must still reach the benchmarks below it, whichever is declared / registered first
    for order in ("fn_first", "mod_first"):
        pt = open_mod(m, path, 4, "twins_" + order)
        if order == "fn_first":
            add_bench(m, pt, 8, "parse", form="bencher")
            add_bench(m, pt, 8, "skipped", form="bencher", options=[("sample_count", "1"), ("sample_size", "1")])
        gp = open_mod(m, pt, 8, "parse", group={"display": "parse group", "options": [("sample_count", "3"), ("sample_size", "5"), ("items_count", "4u32")]})
        add_bench(m, gp, 12, "generic_only", form="bencher", types=["TA", "TB"])
        close_mod(m, 8)
        gq = open_mod(m, pt, 8, "skipped", group={"display": "skipped group", "options": [("ignore", None), ("sample_count", "2"), ("sample_size", "2")]})
        add_bench(m, gq, 12, "generic_only", form="bencher", consts=[1, 2])
        add_bench(m, gq, 12, "plain_inside", form="bencher")
        close_mod(m, 8)
        if order == "mod_first":
            add_bench(m, pt, 8, "parse", form="bencher")
            add_bench(m, pt, 8, "skipped", form="bencher", options=[("sample_count", "1"), ("sample_size", "1")])
        close_mod(m, 4)
    # time options in every attribute spelling (Duration, float seconds), at benchmark and group level;
    # under the virtual clock a call costs exactly `cost` ticks, so the number of rounds is exact
    g = open_mod(m, path, 4, "tim", group={"options": [("sample_size", "1"), ("sample_count", "1000")]})
    D = "std::time::Duration::from_nanos(%d)"
    add_bench(m, g, 8, "max_dur", form="bencher", options=[("max_time", D % 7)], cost=1000)
    add_bench(m, g, 8, "max_float", form="bencher", options=[("max_time", "0.0000000074")], cost=1000)
    add_bench(m, g, 8, "max_float_size2", form="bencher", options=[("max_time", "0.0000000094"), ("sample_size", "2")], cost=1000)
    add_bench(m, g, 8, "min_dur", form="bencher", options=[("min_time", D % 9), ("sample_count", "2")], cost=1000)
    add_bench(m, g, 8, "min_float", form="bencher", options=[("min_time", "0.0000000044"), ("sample_count", "1"), ("sample_size", "2")], cost=1000)
    add_bench(m, g, 8, "min_over_max", form="bencher", options=[("min_time", D % 9), ("max_time", D % 5)], cost=1000)
    add_bench(m, g, 8, "min_below_count", form="bencher", options=[("min_time", D % 2), ("sample_count", "4")], cost=1000)
    add_bench(m, g, 8, "ext_counted", form="bencher", bencher_style="values_costly", options=[("max_time", D % 10)], cost=1000)
    add_bench(m, g, 8, "ext_skipped_flag", form="bencher", bencher_style="values_costly", options=[("max_time", D % 10), ("skip_ext_time", None)], cost=1000)
    add_bench(m, g, 8, "ext_skipped_true", form="bencher", bencher_style="values_costly", options=[("max_time", D % 10), ("skip_ext_time", "true")], cost=1000)
    add_bench(m, g, 8, "ext_skip_false", form="bencher", bencher_style="values_costly", options=[("max_time", D % 10), ("skip_ext_time", "false")], cost=1000)
    gt = open_mod(m, g, 8, "grp_max", group={"options": [("max_time", D % 4), ("skip_ext_time", None)]})
    add_bench(m, gt, 12, "inherits", form="bencher", cost=1000)
    add_bench(m, gt, 12, "own_max", form="bencher", options=[("max_time", D % 6)], cost=1000)
    add_bench(m, gt, 12, "own_skip_false", form="bencher", bencher_style="values_costly", options=[("skip_ext_time", "false")], cost=1000)
    add_bench(m, gt, 12, "inherits_skip", form="bencher", bencher_style="values_costly", cost=1000)
    gm = open_mod(m, gt, 12, "inner_min", group={"options": [("min_time", "0.0000000084"), ("sample_count", "1")]})
    add_bench(m, gm, 16, "min_and_outer_max", form="bencher", cost=1000)
    close_mod(m, 12)
    close_mod(m, 8)
    close_mod(m, 4)
    # automatic sample size with a budget that runs out during / after tuning
    g = open_mod(m, path, 4, "tim_tuned", group={"options": [("sample_count", "3")]})
    add_bench(m, g, 8, "cut_in_tuning", form="bencher", options=[("max_time", D % 20)], cost=1500)
    add_bench(m, g, 8, "cut_after_tuning", form="bencher", options=[("max_time", D % 400)], cost=1500)
    add_bench(m, g, 8, "min_after_tuning", form="bencher", options=[("min_time", D % 700), ("sample_count", "1")], cost=1500)
    close_mod(m, 4)
    g = open_mod(m, path, 4, "zero", group={"options": [("sample_size", "2")]})
    add_bench(m, g, 8, "count_zero", form="bencher", options=[("sample_count", "0")])
    add_bench(m, g, 8, "size_zero", form="bencher", options=[("sample_size", "0")])
    add_bench(m, g, 8, "max_zero", form="bencher", options=[("max_time", "0")])
    add_bench(m, g, 8, "threads_dup", form="bencher", options=[("threads", "[2, 1, 2, 1]"), ("sample_count", "2")])
    add_bench(m, g, 8, "threads_zero_and_n", form="bencher", options=[("threads", "[0, 0]"), ("sample_count", "1"), ("sample_size", "1")])
    add_bench(m, g, 8, "local_with_threads", form="bencher", bencher_style="bench_local", options=[("threads", "4"), ("sample_count", "3")])
    # 0 and the explicit available parallelism name the same count; an explicitly empty list means one thread
    add_bench(m, g, 8, "threads_zero_and_explicit_n", form="bencher", options=[("threads", "[0, crate::rt::ncpu()]"), ("sample_count", "1"), ("sample_size", "1")])
    add_bench(m, g, 8, "threads_n_zero_one", form="bencher", options=[("threads", "[crate::rt::ncpu(), 0, 1]"), ("sample_count", "2"), ("sample_size", "1")])
    add_bench(m, g, 8, "threads_empty", form="bencher", options=[("threads", "[]"), ("sample_count", "2")])
    add_bench(m, g, 8, "threads_empty_args", args="strs", options=[("threads", "[]"), ("sample_count", "1")])
    # every accepted spelling of `threads`
    add_bench(m, g, 8, "threads_true", form="bencher", options=[("threads", "true"), ("sample_count", "1"), ("sample_size", "1")])
    add_bench(m, g, 8, "threads_false", form="bencher", options=[("threads", "false"), ("sample_count", "2")])
    add_bench(m, g, 8, "threads_three", form="bencher", options=[("threads", "3"), ("sample_count", "4")])
    add_bench(m, g, 8, "threads_range", form="bencher", options=[("threads", "0..=2"), ("sample_count", "2"), ("sample_size", "1")])
    add_bench(m, g, 8, "threads_vec", form="bencher", options=[("threads", "vec![3, 1, 3]"), ("sample_count", "3")])
    gtt = open_mod(m, g, 8, "threads_true_group", group={"options": [("threads", "true"), ("sample_count", "1"), ("sample_size", "1")]})
    add_bench(m, gtt, 12, "inherits_true", form="bencher")
    add_bench(m, gtt, 12, "own_false", form="bencher", options=[("threads", "false")])
    close_mod(m, 8)
    ge = open_mod(m, g, 8, "empty_threads_group", group={"options": [("threads", "[]")]})
    add_bench(m, ge, 12, "inherits_empty", form="bencher")
    close_mod(m, 8)
    close_mod(m, 4)
    close_mod(m, 0)


def family_panic(m, tier, add_bench, open_mod, close_mod):
    """A benchmarked function that panics on a worker thread (C08 end to end). Only ever run
    through an explicit filter."""
    top = "pnc"
    m.families[top] = "panic"
    path = open_mod(m, [], 0, top)
    worker = 'if std::env::var_os("ZOO_PANIC").is_some() && std::thread::current().name().map_or(false, |n| n.starts_with("divan-")) { panic!("zoo: injected panic on a pool thread"); }'
    caller = 'if std::env::var_os("ZOO_PANIC").is_some() && !std::thread::current().name().map_or(false, |n| n.starts_with("divan-")) { panic!("zoo: injected panic on the calling thread"); }'
    add_bench(m, path, 4, "panics_on_worker", options=[("threads", "2"), ("sample_count", "2"), ("sample_size", "1")], pre=worker)
    add_bench(m, path, 4, "panics_on_caller", options=[("threads", "3"), ("sample_count", "3"), ("sample_size", "1")], pre=caller)
    close_mod(m, 0)


def family_alloc(m, tier, add_bench, open_mod, close_mod):
    """Benchmarks with an exactly known allocation pattern, through the real global AllocProfiler (C02 / C10 end to end)."""
    top = "alc"
    m.families[top] = "alloc"
    path = open_mod(m, [], 0, top)
    add_bench(m, path, 4, "exact_t1", form="bencher", bencher_style="alloc_exact", body="quiet", options=[("sample_count", "3"), ("sample_size", "4")])
    add_bench(m, path, 4, "exact_t2", form="bencher", bencher_style="alloc_exact", body="quiet", options=[("sample_count", "4"), ("sample_size", "2"), ("threads", "2")])
    add_bench(m, path, 4, "exact_tuned", form="bencher", bencher_style="alloc_exact", body="quiet", options=[("sample_count", "2")], cost=30000)
    # rows that exist without a peak: a timed section that only frees / only shrinks
    add_bench(m, path, 4, "free_only", form="bencher", bencher_style="values_free_only", body="quiet", options=[("sample_count", "3"), ("sample_size", "2")])
    add_bench(m, path, 4, "shrink_only", form="bencher", bencher_style="refs_shrink_only", body="quiet", options=[("sample_count", "2"), ("sample_size", "3"), ("threads", "[1, 2]")])
    # functions without a Bencher whose output owns an allocation, by every wrapper the macro builds
    # (plain, foreign ABI, generic, arguments): the output is dropped after the end timestamp
    add_bench(m, path, 4, "out_plain", body="quiet", ret_alloc=True, options=[("sample_count", "3"), ("sample_size", "2")])
    add_bench(m, path, 4, "out_extern", body="quiet", ret_alloc=True, extern="C", options=[("sample_count", "3"), ("sample_size", "2")])
    add_bench(m, path, 4, "out_extern_t2", body="quiet", ret_alloc=True, extern="C", options=[("sample_count", "2"), ("sample_size", "2"), ("threads", "2")])
    # (one argument / constant / type each: allocation-free bodies are identified by benchmark only)
    add_bench(m, path, 4, "out_consts", body="quiet", ret_alloc=True, consts=[5], options=[("sample_count", "2"), ("sample_size", "2")])
    add_bench(m, path, 4, "out_extern_types", body="quiet", ret_alloc=True, extern="C", types=["TA"], options=[("sample_count", "2"), ("sample_size", "2")])
    add_bench(m, path, 4, "out_args", body="quiet", ret_alloc=True, args="one", options=[("sample_count", "2"), ("sample_size", "2")])
    add_bench(m, path, 4, "out_extern_args", body="quiet", ret_alloc=True, extern="C", args="one", options=[("sample_count", "2"), ("sample_size", "2")])
    # sizes whose four-significant-digit rendering keeps only zeros after the point (10.00x KB, 100.0x KB, 1.000x MB;
    # 1025 B is 1.0009 KiB under the binary format): the printed cells must still carry the integer part
    for size in (10004, 100040, 1000400, 1025):
        add_bench(m, path, 4, "out_size_%d" % size, body="quiet", ret_alloc=size, options=[("sample_count", "2"), ("sample_size", "2")])
    close_mod(m, 0)


# Features of a benchmark item; every unordered compatible pair is generated once (and, in the
# thorough tier, every compatible triple that contains a group feature).
PAIR_FEATURES = {
    # name: (exclusive class, kwargs updates, extra options, enclosing group or None)
    "args_int": ("args", {"args": "arr_i32_big"}, [], None),
    "args_str": ("args", {"args": "string_arr"}, [], None),
    "types": ("types", {"types": ["TB", "TA"]}, [], None),
    "consts": ("consts", {"consts": [10, 9, 2]}, [], None),
    "ign_opt": ("ignore", {}, [("ignore", None)], None),
    "ign_attr": ("ignore", {"ignore_attr": True}, [], None),
    "ign_false": ("ignore", {}, [("ignore", "false")], None),
    "in_ign_group": ("group", {}, [], {"options": [("ignore", None)]}),
    "in_named_group": ("group", {}, [], {"display": "shown g"}),
    "in_opts_group": ("group", {}, [], {"options": [("sample_size", "2"), ("bytes_count", "5u32"), ("threads", "[1, 2]")]}),
    "threads": ("threads", {}, [("threads", "[2, 1]")], None),
    "threads0": ("threads", {}, [("threads", "[0, 1]")], None),
    "counter": ("counter", {}, [("items_count", "3u32")], None),
    "name": ("name", {"name": "Custom Shown"}, [], None),
    "raw": ("raw", {"raw_name": "r#match"}, [], None),
    "bencher": ("form", {"form": "bencher"}, [], None),
    "values": ("form", {"form": "bencher", "bencher_style": "values"}, [], None),
    "local": ("form", {"form": "bencher", "bencher_style": "bench_local"}, [], None),
    "bcounter": ("form", {"form": "bencher", "bencher_style": "counter"}, [], None),
    "sample_opts": ("samples", {}, [("sample_count", "2"), ("sample_size", "3")], None),
    "extern": ("extern", {"extern": "C"}, [], None),
}


def family_pairs(m, tier, add_bench, open_mod, close_mod):
    """Every compatible pair of item features on one benchmark (interaction coverage for C12-C17, C20)."""
    import itertools
    top = "pw"
    m.families[top] = "pairs"
    path = open_mod(m, [], 0, top)
    names = list(PAIR_FEATURES)
    combos = [c for c in itertools.combinations(names, 2)]
    if tier == "thorough":
        combos += [c for c in itertools.combinations(names, 3) if any(PAIR_FEATURES[f][0] == "group" for f in c)]
    k = 0
    for combo in combos:
        classes = [PAIR_FEATURES[f][0] for f in combo]
        if len(set(classes)) != len(classes):
            continue
        if "extern" in combo and any(PAIR_FEATURES[f][0] in ("args", "form") for f in combo):
            continue
        k += 1
        kwargs, options, group = {"raw_name": "b"}, [], None
        for f in combo:
            _, kw, opts, grp = PAIR_FEATURES[f]
            kwargs.update(kw)
            options += opts
            group = grp if grp is not None else group
        p1 = open_mod(m, path, 4, "p%03d_%s" % (k, "_".join(combo)))
        indent = 8
        if group is not None:
            p1 = open_mod(m, p1, 8, "g", group=group)
            indent = 12
        add_bench(m, p1, indent, options=options, cost=1000 + 97 * (k % 13), **kwargs)
        if group is not None:
            close_mod(m, 8)
        close_mod(m, 4)
    close_mod(m, 0)


def family_narrow(m, tier, add_bench, open_mod, close_mod):
    """Nothing but short names: the invented `t=N` lines are the widest lines of the tree (C20: the name
    column is sized from the names, the thread-count labels are not among them)."""
    top = "k"
    m.families[top] = "narrow"
    path = open_mod(m, [], 0, top)
    add_bench(m, path, 4, "r", options=[("threads", "[1, 2]")])
    add_bench(m, path, 4, "w", options=[("threads", "[2, 16]")])
    d = open_mod(m, path, 4, "d")
    add_bench(m, d, 8, "e", args="arr_i32_big", options=[("threads", "[1, 3]")])
    close_mod(m, 4)
    add_bench(m, path, 4, "z")
    close_mod(m, 0)


def family_degenerate(m, tier, add_bench, open_mod, close_mod):
    """Degenerate items (no argument, no type, no constant, a group with nothing in it) placed AHEAD of ordinary
    siblings in one module: whatever a walk over the siblings keeps from one node to the next (a path buffer, merged
    options, an `is last` flag, a cached name) meets an ordinary item right after a degenerate one."""
    top = "deg"
    m.families[top] = "degenerate"
    path = open_mod(m, [], 0, top)
    add_bench(m, path, 4, "e_args", args="empty")
    add_bench(m, path, 4, "after_empty_args")
    add_bench(m, path, 4, "e_types", types=[])
    add_bench(m, path, 4, "after_empty_types", args="strs")
    add_bench(m, path, 4, "e_consts", consts=[])
    add_bench(m, path, 4, "after_empty_consts", types=["TA", "TB"])
    g = open_mod(m, path, 4, "hollow", group={"options": [("ignore", None), ("items_count", "3u32")]})
    close_mod(m, 4)
    add_bench(m, path, 4, "after_hollow_group", form="bencher")
    sub = open_mod(m, path, 4, "sub")
    add_bench(m, sub, 8, "e_args", args="empty", options=[("sample_count", "7")])
    add_bench(m, sub, 8, "last", options=[("sample_size", "2")])
    close_mod(m, 4)
    add_bench(m, path, 4, "e_tail", args="empty")
    close_mod(m, 0)


def more_families(m, tier, add_bench, open_mod, close_mod):
    family_degenerate(m, tier, add_bench, open_mod, close_mod)
    family_narrow(m, tier, add_bench, open_mod, close_mod)
    family_pairs(m, tier, add_bench, open_mod, close_mod)
    family_alloc(m, tier, add_bench, open_mod, close_mod)
    family_shapes(m, tier, add_bench, open_mod, close_mod)
    family_sort(m, tier, add_bench, open_mod, close_mod)
    family_options(m, tier, add_bench, open_mod, close_mod)
    family_panic(m, tier, add_bench, open_mod, close_mod)
