#!/usr/bin/env python3
"""Writes seeded/<id>/meta.json for one round from a small table (JSON on stdin):
[{"id":..., "property":..., "change":..., "needs":..., "first_result":..., "strengthened": optional text}, ...]
The `verified` block is read from the files lib/seedproc.sh left in the seed's directory."""
import json
import os
import sys

ROOT = os.path.join(os.path.dirname(os.path.abspath(__file__)), "..", "seeded")


def tail(path, n):
    if not os.path.exists(path):
        return []
    return [l.rstrip("\n") for l in open(path, errors="replace").read().splitlines() if l.strip()][-n:]


def main():
    rnd = int(sys.argv[1])
    for e in json.load(sys.stdin):
        d = os.path.join(ROOT, e["id"])
        if not os.path.isdir(d):
            raise SystemExit("no such seed directory: " + d)
        meta = {
            "property": e["property"], "change": e["change"], "needs": e["needs"], "first_result": e["first_result"],
            "id": e["id"], "round": rnd,
            "verified": {
                "suite_with_change": tail(os.path.join(d, "suite_with_change.txt"), 1),
                "demo_with_change": [l for l in tail(os.path.join(d, "demo_with_change.txt"), 3) if not l.startswith("rc=")],
                "demo_without_change": [l for l in tail(os.path.join(d, "demo_without_change.txt"), 4) if not l.startswith("rc=")],
                "how": "lib/seedproc.sh (rounds 1-9) or lib/seedverify.sh (from round 10) in the sub-agent's scratch worktree (pinned suite with the change; demonstration with and without the change), then lib/trymut.py against /repo",
            },
            "origin": ("independent sub-agent given only the property text and a scratch worktree" if rnd == 10 else "independent sub-agent given only the property text, the list of changes already seeded for it and a scratch worktree"),
        }
        if e.get("strengthened"):
            meta["strengthened"] = e["strengthened"]
        json.dump(meta, open(os.path.join(d, "meta.json"), "w"), indent=1, ensure_ascii=False)
        print("wrote", e["id"])


if __name__ == "__main__":
    main()
