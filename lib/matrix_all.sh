#!/bin/bash
# Re-runs the whole detection matrix: every self-made patch (selfmut/) and every seeded change (seeded/)
# against the check of its property. Prints one DETECTED / MISSED / MACHINERY line per patch.
cd "$(dirname "$0")/.."
lib/selfmut_all.sh "$@"
SH_K=${MATRIX_SHARD%%/*}; SH_N=${MATRIX_SHARD##*/}; : ${SH_K:=0}; : ${SH_N:=1}; idx=0
for d in seeded/*/; do
  idx=$((idx+1)); if [ $((idx % SH_N)) -ne $SH_K ]; then continue; fi
  id=$(basename $d)
  prop=$(python3 -c "import json,sys;print(json.load(open('$d/meta.json'))['property'])")
  echo "== seeded $id -> $prop"
  lib/trymut.py $d/patch.diff $prop 2>&1 | cut -c1-240
done
