#!/bin/bash
# Re-runs the whole detection matrix: every self-made patch (selfmut/) and every seeded change (seeded/)
# against the check of its property. Prints one DETECTED / MISSED / MACHINERY line per patch.
cd "$(dirname "$0")/.."
lib/selfmut_all.sh "$@"
for d in seeded/*/; do
  id=$(basename $d)
  prop=$(python3 -c "import json,sys;print(json.load(open('$d/meta.json'))['property'])")
  echo "== seeded $id -> $prop"
  lib/trymut.py $d/patch.diff $prop 2>&1 | cut -c1-240
done
