#!/bin/bash
# usage: seedproc.sh <worktree> <seed-id> <demo-test-file-or-empty> "<demo command>" <PROP> [more PROPs]
# Verifies a sub-agent's seeded change in its scratch worktree (suite passes with the change, demo fails with /
# passes without), stores it under /verif/seeded/<seed-id>/ and runs the named checks against it.
set -u
WT=$1; ID=$2; DEMOFILE=$3; DEMOCMD=$4; shift 4; PROPS="$@"
OUT=/verif/seeded/$ID; mkdir -p $OUT
cd $WT || exit 2
export CARGO_TARGET_DIR=$WT/target CARGO_NET_OFFLINE=true
git diff -- src macros > /tmp/seed_cur.diff
if ! diff -q /tmp/seed_cur.diff SEED/patch.diff >/dev/null; then echo "NOTE: worktree diff != patch.diff; resetting to patch"; git checkout -- . ; git clean -fdq src tests macros; git apply SEED/patch.diff || exit 2; fi
echo "== suite WITH the change"
cargo nextest run --workspace --no-fail-fast --offline 2>&1 | tail -3 | tee $OUT/suite_with_change.txt
[ -n "$DEMOFILE" ] && cp SEED/$DEMOFILE tests/ 2>/dev/null
[ -f SEED/demo.diff ] && git apply SEED/demo.diff
echo "== demo WITH the change"
bash -c "$DEMOCMD" > $OUT/demo_with_change.txt 2>&1; echo "rc=$?" | tee -a $OUT/demo_with_change.txt; tail -5 $OUT/demo_with_change.txt
git apply -R SEED/patch.diff
echo "== demo WITHOUT the change"
bash -c "$DEMOCMD" > $OUT/demo_without_change.txt 2>&1; echo "rc=$?" | tee -a $OUT/demo_without_change.txt; tail -5 $OUT/demo_without_change.txt
[ -n "$DEMOFILE" ] && rm -f tests/$DEMOFILE
[ -f SEED/demo.diff ] && git apply -R SEED/demo.diff
git apply SEED/patch.diff
cp SEED/patch.diff $OUT/patch.diff
cp -r SEED/* $OUT/ 2>/dev/null
cd /verif
echo "== checks"
lib/trymut.py $OUT/patch.diff $PROPS | tee $OUT/checks.txt
