#!/usr/bin/env python3
"""Validates MANIFEST.json and evidence/*.json against the given schemas (tooling venv: python3-vt)."""
import glob, json, sys
import jsonschema
ok = True
m = json.load(open('/verif/MANIFEST.json'))
jsonschema.validate(m, json.load(open('/root/.vp/MANIFEST.schema.json')))
es = json.load(open('/root/.vp/EVIDENCE.schema.json'))
for c in m['checks']:
    p = '/verif/' + c['evidence_file']
    try:
        jsonschema.validate(json.load(open(p)), es)
    except Exception as e:
        ok = False
        print('INVALID', p, str(e)[:300])
ids = {c['property_id'] for c in m['checks']} | {n['property_id'] for n in m.get('not_applicable', [])}
missing = [('C%02d' % i) for i in range(1, 21) if ('C%02d' % i) not in ids]
if missing:
    ok = False
    print('properties neither claimed nor not_applicable:', missing)
print('valid' if ok else 'INVALID')
sys.exit(0 if ok else 1)
