#!/bin/bash
# usage: seedverify.sh <worktree> <seed-id>
# Phase A of seedproc.sh (safe to run for several worktrees in parallel): verifies a sub-agent's change inside its own
# scratch worktree - pinned suite passes with the change, the demonstration (first line of SEED/DEMO.md: `DEMO_CMD: ...`)
# fails with it and passes without it - and stores everything under /verif/seeded/<seed-id>/.
# Phase B (serial, touches /repo): lib/trymut.py seeded/<seed-id>/patch.diff <PROP>
set -u
WT=$1; ID=$2
OUT=/verif/seeded/$ID; mkdir -p $OUT
cd $WT || exit 2
export CARGO_TARGET_DIR=$WT/target CARGO_NET_OFFLINE=true
DEMOCMD=$(head -1 SEED/DEMO.md | sed -n 's/^DEMO_CMD: *//p')
[ -z "$DEMOCMD" ] && { echo "no DEMO_CMD"; exit 2; }
git apply -R SEED/demo.diff 2>/dev/null
git checkout -- . ; git clean -fdq src tests macros examples; git apply SEED/patch.diff || exit 2
cargo nextest run --workspace --no-fail-fast --offline 2>&1 | tail -3 > $OUT/suite_with_change.txt
git apply SEED/demo.diff || { echo "demo.diff does not apply"; exit 2; }
bash -c "$DEMOCMD" > $OUT/demo_with_change.txt 2>&1; echo "rc=$?" >> $OUT/demo_with_change.txt
git apply -R SEED/patch.diff
bash -c "$DEMOCMD" > $OUT/demo_without_change.txt 2>&1; echo "rc=$?" >> $OUT/demo_without_change.txt
git apply -R SEED/demo.diff
git apply SEED/patch.diff
cp -r SEED/* $OUT/
echo "$ID: suite: $(grep -o '[0-9]* passed' $OUT/suite_with_change.txt | head -1) / $(grep -o '[0-9]* failed' $OUT/suite_with_change.txt | head -1); demo with: $(tail -1 $OUT/demo_with_change.txt); demo without: $(tail -1 $OUT/demo_without_change.txt)"
