#!/bin/bash
# Cross-detection matrix: every self-made and seeded patch against every check of the *group* of
# properties its files belong to (not only the property it was written for). A MISSED line is a lead,
# not a verdict: the patch may simply not break that property.
cd "$(dirname "$0")/.."
for f in selfmut/*.diff seeded/*/patch.diff; do
  files=$(grep '^+++ b/' $f | sed 's|+++ b/||' | tr '\n' ' ')
  ids=""
  case "$files" in *src/benchmark/*|*src/stats/*|*src/counter/*) ids="$ids C01 C02 C03 C04 C05 C08 C19";; esac
  case "$files" in *src/util/thread/*) ids="$ids C06 C07 C08";; esac
  case "$files" in *src/alloc.rs*) ids="$ids C09 C10 C02";; esac
  case "$files" in *src/time/*|*src/util/fmt*|*src/stats/*|*src/counter/*) ids="$ids C11 C18 C19";; esac
  case "$files" in *src/entry/*|*src/divan.rs*|*src/config/*|*src/cli.rs*|*macros/*|*src/tree_painter.rs*|*src/benchmark/args.rs*|*src/util/sort.rs*|*src/util/split_vec.rs*) ids="$ids C03 C12 C13 C14 C15 C16 C17 C20";; esac
  ids=$(echo $ids | tr ' ' '\n' | sort -u | tr '\n' ' ')
  echo "== $f [$files] -> $ids"
  [ -n "$ids" ] && lib/trymut.py $f $ids 2>&1 | cut -c1-200
done
