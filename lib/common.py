class Machinery(Exception):
    """Anything that is not a verdict: build failure, engine crash, cap hit."""
