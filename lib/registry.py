"""Which jobs decide which property, per tier. Engines: S (mc-seq binaries),
L (mc-loom scenarios), Z (zoo black-box runs)."""

PROPS = {}

META = {}


def prop(pid, quick, thorough=None, assumptions=(), technique="", text="", note="", engine=""):
    PROPS[pid] = {"quick": quick, "thorough": thorough or quick, "assumptions": list(assumptions)}
    META[pid] = {"technique": technique, "text": text, "note": note, "engine": engine}


prop("C11",
     quick=[{"engine": "S", "bin": "c11"}],
     thorough=[{"engine": "S", "bin": "c11"}],
     assumptions=[
         "u64^3 is not enumerable: the claim is the stated boundary lattice (90 readings x 27 frequencies) plus the dense cube a,b,f < 96 (160 in thorough)",
         "precision: clocks whose read spacing aliases with the step (no non-zero sample ever seen, the real loop would spin for ever) and steps below 1 ps are excluded and counted",
     ],
     technique="bounded-exhaustive enumeration of (a,b,f) lattice + dense cube on the real conversion against a 256-bit integer reference; real measure_precision under scripted uniform-step virtual clocks",
     text="Every (a,b,f) of a boundary lattice and of a dense low cube is pushed through the real TscTimestamp::duration_since and compared with floor((b-a)*10^12/f) computed in 256-bit arithmetic; monotonicity, additivity defect in {0,1} and translation invariance are checked on all ordered lattice triples; Duration->ps on boundary Durations; Timer::measure_precision is run under virtual clocks stepping uniformly.",
     note="Trusted: the 256-bit reference arithmetic in harness/mc-seq/src/bigint.rs, the virtual clock seam (hook H5).",
     engine="S")
