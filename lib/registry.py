"""Which jobs decide which property, per tier. Engines: S (mc-seq binaries),
L (mc-loom scenarios), Z (zoo black-box runs)."""

PROPS = {}

META = {}


def prop(pid, quick, thorough=None, assumptions=(), technique="", text="", note="", engine=""):
    PROPS[pid] = {"quick": quick, "thorough": thorough or quick, "assumptions": list(assumptions)}
    META[pid] = {"technique": technique, "text": text, "note": note, "engine": engine}


prop("C11",
     quick=[{"engine": "S", "bin": "c11"}],
     thorough=[{"engine": "S", "bin": "c11"}],
     assumptions=[
         "u64^3 is not enumerable: the claim is the stated boundary lattice (90 readings x 27 frequencies) plus the dense cube a,b,f < 96 (160 in thorough)",
         "precision: clocks whose read spacing aliases with the step (no non-zero sample ever seen, the real loop would spin for ever) and steps below 1 ps are excluded and counted",
     ],
     technique="bounded-exhaustive enumeration of (a,b,f) lattice + dense cube on the real conversion against a 256-bit integer reference; real measure_precision under scripted uniform-step virtual clocks",
     text="Every (a,b,f) of a boundary lattice and of a dense low cube is pushed through the real TscTimestamp::duration_since and compared with floor((b-a)*10^12/f) computed in 256-bit arithmetic; monotonicity, additivity defect in {0,1} and translation invariance are checked on all ordered lattice triples; Duration->ps on boundary Durations; Timer::measure_precision is run under virtual clocks stepping uniformly.",
     note="Trusted: the 256-bit reference arithmetic in harness/mc-seq/src/bigint.rs, the virtual clock seam (hook H5).",
     engine="S")


LOOP_NOTE = "Trusted: the hooks (virtual clock in TscTimestamp, TallyCleared tap, facade re-exports), the site instrumentation in harness/common/loopdrv.rs and the trace checkers in harness/common/oracle.rs; loom slice additionally trusts the std facade models (harness/rt/src/shim_loom.rs)."

prop("C01",
     quick=[{"engine": "S", "bin": "loopmc", "args": ["--prop", "C01"], "parts": 4}],
     thorough=[{"engine": "S", "bin": "loopmc", "args": ["--prop", "C01"], "parts": 8}],
     assumptions=[
         "sample_size and sample_count up to 3 (5 thorough), tuned size with 0..2 doublings; thread counts > 1 only under loom with T in {2,3}",
         "panic points: n-th execution of a site for n in {0,1,last} (thorough adds 2,3,mid), one panic per run",
         "zero-sized values carry no identity: for them the oracle counts events instead of tracking ids",
     ],
     technique="bounded-exhaustive enumeration of (entry point x input/output shape x options x panic point) on the real Bencher loop with identity-tagged values; trace-checking oracle; loom DPOR for T>1",
     text="All 72 (entry point, input shape, output shape) instantiations x sample sizes x sample counts x {explicit, tuned, test} x input-counter sets x panic points are executed on the real sample loop under a virtual clock; every generated value carries an id and the event log is checked per id (generated once, counted once per counter, called once, dropped once after the timed section, output before input, one thread).",
     note=LOOP_NOTE, engine="S+L")

prop("C02",
     quick=[{"engine": "S", "bin": "loopmc", "args": ["--prop", "C02"], "parts": 4}],
     thorough=[{"engine": "S", "bin": "loopmc", "args": ["--prop", "C02"], "parts": 8}],
     assumptions=[
         "decides which calls and allocator operations fall between the two timestamp reads; that the CPU/compiler does not move instructions across the fences of time/fence.rs is outside any source-level execution model",
         "allocation scripts: 6 scripts per site (5 sites), 14 code-path classes, sample sizes 1 and 2",
     ],
     technique="bounded-exhaustive enumeration of allocation scripts per closure site on the real loop with a mock allocator behind the real AllocProfiler; trace-checking oracle comparing stored tallies with a reference tally of the logged timed operations",
     text="Every vector of allocation scripts (6^5) for generator / counter / benchmarked function / output destructor / input destructor is run on each of the 14 code-path classes; the oracle requires that between a thread's start and end reads only calls and their own allocator operations occur and that the tally stored for each sample equals the reference tally of exactly those operations.",
     note=LOOP_NOTE, engine="S+L")

prop("C03",
     quick=[{"engine": "S", "bin": "loopmc", "args": ["--prop", "C03"], "parts": 8}],
     thorough=[{"engine": "S", "bin": "loopmc", "args": ["--prop", "C03"], "parts": 8}],
     assumptions=[
         "n in {unset,0,1,2,3,5,100,257} x s in {0,1,2,3,1000} for T=1; T in {2,3} only within the loom bounds; 'all ways of setting them' is decided by the engine-Z runs of C15",
     ],
     technique="bounded-exhaustive enumeration of (n, s, mode, max_time=0, entry) on the real loop counting calls per thread; loom DPOR for T in {2,3}",
     text="For every (n, s) of the grid, bench and test mode, with and without max_time = 0, on all six entry points the number of calls per thread, of recorded samples, the reserved storage in test mode and the samples/iters figures of the computed statistics are compared with s*ceil(n/T), T*ceil(n/T), 0 and their product.",
     note=LOOP_NOTE, engine="S+L")
