"""Which jobs decide which property, per tier. Engines: S (mc-seq binaries),
L (mc-loom scenarios), Z (zoo black-box runs)."""

PROPS = {}

META = {}


def prop(pid, quick, thorough=None, assumptions=(), technique="", text="", note="", engine=""):
    PROPS[pid] = {"quick": quick, "thorough": thorough or quick, "assumptions": list(assumptions)}
    META[pid] = {"technique": technique, "text": text, "note": note, "engine": engine}


prop("C11",
     quick=[{"engine": "S", "bin": "c11"}],
     thorough=[{"engine": "S", "bin": "c11"}],
     assumptions=[
         "u64^3 is not enumerable: the claim is the stated boundary lattice (90 readings x 27 frequencies) plus the dense cube a,b,f < 96 (512 in thorough, which also adds every 2^k and 10^k with neighbours as reading and frequency, and windows of differences around whole multiples of every frequency)",
         "precision: clocks whose read spacing aliases with the step (no non-zero sample ever seen, the real loop would spin for ever) and steps below 1 ps are excluded and counted",
         "the reported (cached, per process and timer kind) precision is explored over process histories: a fresh child process per (clock step, frequency, order of up to three os / tsc queries); the OS clock is the host's, its answer is only bounded (non-zero, below 100 ms, stable within the process) while the virtual TSC steps are >= 1 s",
     ],
     technique="bounded-exhaustive enumeration of (a,b,f) lattice + dense cube on the real conversion (inner function and the tagged Timestamp route) against a 256-bit integer reference; OS instants over all offset pairs; real measure_precision under scripted uniform-step virtual clocks; reported precision over all query orders in fresh processes",
     text="Every (a,b,f) of a boundary lattice and of a dense low cube is pushed through the real TscTimestamp::duration_since and through Timestamp::duration_since (the tagged route every consumer takes) and compared with floor((b-a)*10^12/f) computed in 256-bit arithmetic; monotonicity, additivity defect in {0,1} and translation invariance are checked on all ordered lattice triples; Duration->ps on boundary Durations; Timer::measure_precision is run under virtual clocks stepping uniformly.",
     note="Trusted: the 256-bit reference arithmetic in harness/mc-seq/src/bigint.rs, the virtual clock seam (hook H5).",
     engine="S")


LOOP_NOTE = "Trusted: the hooks (virtual clock in TscTimestamp, TallyCleared tap, facade re-exports), the site instrumentation in harness/common/loopdrv.rs and the trace checkers in harness/common/oracle.rs; loom slice additionally trusts the std facade models (harness/rt/src/shim_loom.rs)."

prop("C01",
     quick=[{"engine": "S", "bin": "loopmc", "args": ["--prop", "C01"], "parts": 4}],
     thorough=[{"engine": "S", "bin": "loopmc", "args": ["--prop", "C01"], "parts": 8}],
     assumptions=[
         "sample_size and sample_count up to 3 (5 thorough), tuned size with 0..2 doublings; thread counts > 1 only under loom with T in {2,3}",
         "panic points: n-th execution of a site for n in {0,1,last} (thorough adds 2,3,mid), one panic per run",
         "zero-sized values carry no identity: for them the oracle counts events instead of tracking ids",
     ],
     technique="bounded-exhaustive enumeration of (entry point x input/output shape x options x panic point) on the real Bencher loop with identity-tagged values; trace-checking oracle; loom DPOR for T>1",
     text="All 72 (entry point, input shape, output shape) instantiations x sample sizes x sample counts x {explicit, tuned, test} x input-counter sets x panic points are executed on the real sample loop under a virtual clock; every generated value carries an id and the event log is checked per id (generated once, counted once per counter, called once, dropped once after the timed section, output before input, one thread).",
     note=LOOP_NOTE, engine="S+L")

prop("C02",
     quick=[{"engine": "S", "bin": "loopmc", "args": ["--prop", "C02"], "parts": 4}],
     thorough=[{"engine": "S", "bin": "loopmc", "args": ["--prop", "C02"], "parts": 8}],
     assumptions=[
         "decides which calls and allocator operations fall between the two timestamp reads; that the CPU/compiler does not move instructions across the fences of time/fence.rs is outside any source-level execution model",
         "allocation scripts: 6 scripts per site (5 sites), 14 code-path classes, sample sizes 1 and 2",
         "also: allocation only before round 1/2/4 under automatic sample size (every shape, T in {1,2}); threads that perform no allocator operation at all next to threads that do (T in {2,3}, every proper subset, real threads): on real threads the position of a thread in the pool is read from its OS thread name, so every sample must carry the tally of the thread at its position",
     ],
     technique="bounded-exhaustive enumeration of allocation scripts per closure site on the real loop with a mock allocator behind the real AllocProfiler; trace-checking oracle comparing stored tallies with a reference tally of the logged timed operations",
     text="Every vector of allocation scripts (6^5) for generator / counter / benchmarked function / output destructor / input destructor is run on each of the 14 code-path classes; the oracle requires that between a thread's start and end reads only calls and their own allocator operations occur and that the tally stored for each sample equals the reference tally of exactly those operations.",
     note=LOOP_NOTE, engine="S+L")

prop("C03",
     quick=[{"engine": "S", "bin": "loopmc", "args": ["--prop", "C03"], "parts": 8}],
     thorough=[{"engine": "S", "bin": "loopmc", "args": ["--prop", "C03"], "parts": 8}],
     assumptions=[
         "n in {unset,0,1,2,3,5,100,257} x s in {0,1,2,3,1000} for T=1; T in {2,3} only within the loom bounds; 'all ways of setting them' is decided by the engine-Z runs of C15",
     ],
     technique="bounded-exhaustive enumeration of (n, s, mode, max_time=0, entry) on the real loop counting calls per thread; loom DPOR for T in {2,3}",
     text="For every (n, s) of the grid, bench and test mode, with and without max_time = 0, on all six entry points the number of calls per thread, of recorded samples, the reserved storage in test mode and the samples/iters figures of the computed statistics are compared with s*ceil(n/T), T*ceil(n/T), 0 and their product.",
     note=LOOP_NOTE, engine="S+L")


# ---------------------------------------------------------------------------
# Engine L scenario lists
# ---------------------------------------------------------------------------
import itertools


def _bc(n, panics=(), extend=False, bomb=False, caller=0):
    return {"n": n, "panics": list(panics), "extend": extend, "bomb": bomb, "caller": caller}


def _pool(history, pb=None):
    return {"kind": "pool", "history": history, "pb": pb}


def _subsets(n):
    idx = list(range(n + 1))
    for k in range(1, n + 2):
        for c in itertools.combinations(idx, k):
            yield c


def pool_scenarios(tier):
    out = []
    # every history over {0,1,2} with length <= 2, unbounded
    for k in (1, 2):
        for h in itertools.product((0, 1, 2), repeat=k):
            out.append(_pool([_bc(n) for n in h]))
    out.append(_pool([_bc(1), _bc(1), _bc(1)]))
    # every panicking subset for [1] and [2], followed by a clean broadcast (workers reused)
    for n in (1, 2):
        for sub in _subsets(n):
            out.append(_pool([_bc(n, sub), _bc(1)]))
            out.append(_pool([_bc(n, sub, extend=True)]))
    out.append(_pool([_bc(1, extend=True), _bc(2, (1,), extend=True)]))
    out.append(_pool([_bc(2, extend=True)]))
    out.append(_pool([_bc(3)], pb=2))
    # no auxiliary thread at all and the only call panics (a T = 1 benchmark that panics): the panic must still be
    # caught and reported as an empty entry; alone, before and after broadcasts that use workers
    out.append(_pool([_bc(0, (0,))]))
    out.append(_pool([_bc(0, (0,), extend=True)]))
    out.append(_pool([_bc(0, (0,), extend=True), _bc(1, extend=True)]))
    out.append(_pool([_bc(1), _bc(0, (0,)), _bc(1)]))
    out.append(_pool([_bc(0, (0,), bomb=True), _bc(0)]))
    out.append(_pool([_bc(1, extend=True), _bc(0, (0,), extend=True), _bc(0, extend=True)]))
    # the caller's own call panics with a payload whose destructor panics
    out.append(_pool([_bc(1, (0,), bomb=True), _bc(1)]))
    out.append(_pool([_bc(2, (0,), bomb=True)]))
    out.append(_pool([_bc(2, (0, 2), bomb=True), _bc(1)]))
    out.append(_pool([_bc(1, (0,), extend=True, bomb=True)]))
    # the same worker (or the caller) panics in two different broadcasts: per-thread state of a reused worker
    out.append(_pool([_bc(1, (1,)), _bc(1, (1,))]))
    out.append(_pool([_bc(1, (1,)), _bc(1), _bc(1, (1,))], pb=3))
    out.append(_pool([_bc(1, (0,)), _bc(1, (0,))]))
    out.append(_pool([_bc(2, (2,)), _bc(1, (1,))], pb=3))
    out.append(_pool([_bc(1, (0, 1)), _bc(1, (0, 1))]))
    # consecutive par_extend calls into one reused vector (cleared, capacity kept), panics in the later one
    out.append(_pool([_bc(1, extend=True), _bc(1, (1,), extend=True)]))
    out.append(_pool([_bc(1, (1,), extend=True), _bc(1, (1,), extend=True)]))
    out.append(_pool([_bc(2, extend=True), _bc(1, (0,), extend=True)], pb=3))
    out.append(_pool([_bc(2, extend=True), _bc(2, (2,), extend=True)], pb=3))
    # broadcasts issued by different threads on the same pool (sequentially)
    out.append(_pool([_bc(1), _bc(1, caller=1)]))
    out.append(_pool([_bc(1, caller=1), _bc(1)]))
    out.append(_pool([_bc(1), _bc(2, caller=1)], pb=3))
    out.append(_pool([_bc(2, caller=1), _bc(1)], pb=3))
    out.append(_pool([_bc(1, caller=1), _bc(1, caller=1)]))
    if tier == "thorough":
        out.append(_pool([_bc(1), _bc(2, caller=1)]))
        out.append(_pool([_bc(2), _bc(2, caller=1)], pb=3))
        out.append(_pool([_bc(1, caller=1), _bc(0), _bc(1, caller=1)]))
        for h in itertools.product((0, 1, 2), repeat=3):
            out.append(_pool([_bc(n) for n in h], pb=None if sum(h) <= 4 else 3))
        out.append(_pool([_bc(3)]))
        out.append(_pool([_bc(3), _bc(1)], pb=3))
        out.append(_pool([_bc(1), _bc(3)], pb=3))
        out.append(_pool([_bc(2), _bc(3)], pb=3))
        out.append(_pool([_bc(4)], pb=3))
        out.append(_pool([_bc(3), _bc(3)], pb=2))
        out.append(_pool([_bc(4), _bc(1)], pb=2))
        for sub in _subsets(3):
            out.append(_pool([_bc(3, sub, extend=True)], pb=3))
        # deeper (added in round 10): every pair of panicking subsets in two consecutive broadcasts (n = 1 unbounded,
        # n = 2 with 2 preemptions), histories of length 4 over {0,1}, four workers in longer histories, every
        # panicking subset with four workers
        for s1 in _subsets(1):
            for s2 in _subsets(1):
                out.append(_pool([_bc(1, s1), _bc(1, s2)]))
                out.append(_pool([_bc(1, s1, extend=True), _bc(1, s2, extend=True)]))
        for s1 in _subsets(2):
            for s2 in _subsets(2):
                out.append(_pool([_bc(2, s1, extend=True), _bc(2, s2, extend=True)], pb=2))
        for h in itertools.product((0, 1), repeat=4):
            out.append(_pool([_bc(n) for n in h], pb=None if sum(h) <= 3 else 3))
        out.append(_pool([_bc(3), _bc(3)], pb=3))
        out.append(_pool([_bc(4), _bc(4)], pb=2))
        out.append(_pool([_bc(2), _bc(4)], pb=2))
        out.append(_pool([_bc(4), _bc(2)], pb=2))
        out.append(_pool([_bc(1), _bc(2), _bc(3), _bc(4)], pb=2))
        out.append(_pool([_bc(4), _bc(3), _bc(2), _bc(1)], pb=2))
        for sub in _subsets(4):
            out.append(_pool([_bc(4, sub, extend=True), _bc(1)], pb=2))
    # de-duplicate
    seen, uniq = set(), []
    for sc in out:
        import json as _j
        key = _j.dumps(sc, sort_keys=True)
        if key not in seen:
            seen.add(key)
            uniq.append(sc)
    return uniq


def loop_case(entry, ishape, oshape, threads, n, s, **kw):
    case = {"entry": entry, "ishape": ishape, "oshape": oshape, "test": False, "threads": threads,
            "sample_count": n, "sample_size": s, "min_time_ns": None, "max_time_ns": None, "skip_ext": None,
            "input_counters": 1 if entry >= 2 else 0, "inherited": [None] * 4, "bencher_counters": [],
            "counter_after_input": False, "panic": None, "alloc": [1, 0, 2, 3, 1],
            "cost": [[0], [0], [1000], [0], [0]], "thread_skew": 7, "read_cost": 1, "freq": 10 ** 12,
            "precision_ps": 1000, "overhead_ps": [0, 0, 0, 0], "horizon": 100000}
    case.update(kw)
    return case


def _loop(case, pb=None):
    return {"kind": "loop", "case": case, "pb": pb}


# (entry, ishape, oshape) covering the three loop paths and every place a destructor can run:
# ZST path (no drops / zero-sized output with Drop / both zero-sized with Drop / ZST Drop input only),
# slots path (sized Drop both / sized input with zero-sized Drop output), inputs-only path (with / without input Drop)
LOOM_SHAPES = [(0, 0, 0), (0, 0, 1), (4, 1, 1), (4, 1, 0), (2, 3, 3), (4, 2, 1), (4, 3, 2), (4, 2, 0)]


def loop_scenarios(tier, panics=True):
    out = []
    for (e, i, o) in LOOM_SHAPES:
        out.append(_loop(loop_case(e, i, o, 2, 1, 1)))                  # T=2, 1 round, all interleavings
    out.append(_loop(loop_case(2, 3, 3, 2, 2, 2)))                      # sample size 2
    out.append(_loop(loop_case(2, 3, 3, 2, 3, 1), pb=2))                # 2 rounds
    out.append(_loop(loop_case(4, 3, 3, 3, 1, 1), pb=1))                # T=3
    out.append(_loop(loop_case(2, 3, 3, 2, 1, 1, test=True)))           # test mode
    # automatic sample size: the first round passes the threshold at once (one round, all interleavings)
    out.append(_loop(loop_case(4, 3, 3, 2, 1, None, cost=[[0], [0], [200000], [0], [0]])))
    if panics:
        for site in range(5):
            for thread in (0, 1):
                out.append(_loop(loop_case(4, 3, 3, 2, 1, 1, panic={"site": site, "thread": thread, "nth": 0})))
        # test mode (one call per thread, its own path through the synchronisation) with a panic before / in the call
        for site in (0, 1, 2):
            for thread in (0, 1):
                out.append(_loop(loop_case(4, 3, 3, 2, 1, 1, test=True, panic={"site": site, "thread": thread, "nth": 0})))
        # a panic in the second round (state carried between rounds: reused result vector, barrier of the new round)
        for site in (0, 2, 4):
            for thread in (0, 1):
                out.append(_loop(loop_case(4, 3, 3, 2, 3, 1, panic={"site": site, "thread": thread, "nth": 1}), pb=2))
    if tier == "thorough":
        out.append(_loop(loop_case(0, 0, 0, 3, 1, 1), pb=2))
        out.append(_loop(loop_case(2, 3, 3, 2, 3, 1), pb=3))
        out.append(_loop(loop_case(2, 3, 3, 2, 5, 1), pb=1))
        out.append(_loop(loop_case(4, 3, 3, 2, 1, None, cost=[[0], [0], [60000], [0], [0]]), pb=2))  # tuned: 1 doubling
        if panics:
            for (e, i, o) in LOOM_SHAPES:
                for site in range(5):
                    for thread in (0, 1):
                        out.append(_loop(loop_case(e, i, o, 2, 1, 1, panic={"site": site, "thread": thread, "nth": 0})))
            for site in (0, 2, 3):
                for thread in (0, 2):
                    out.append(_loop(loop_case(4, 3, 3, 3, 1, 1, panic={"site": site, "thread": thread, "nth": 0}), pb=1))
    seen, uniq = set(), []
    import json as _j
    for sc in out:
        c = sc["case"]
        p = c["panic"]
        # panic sites that never execute for the shape are skipped
        if p:
            if p["site"] in (0, 1) and c["entry"] < 2:
                continue
            if p["site"] == 3 and c["oshape"] not in (1, 3):
                continue
            if p["site"] == 4 and not (c["entry"] >= 4 and c["ishape"] in (1, 3)):
                continue
        key = _j.dumps(sc, sort_keys=True)
        if key not in seen:
            seen.add(key)
            uniq.append(sc)
    return uniq


def c03_loop_scenarios(tier):
    out = []
    for n in (0, 1, 2):
        out.append(_loop(loop_case(2, 2, 0, 2, n, 1)))                 # n < T, n = T: all interleavings
    out.append(_loop(loop_case(2, 2, 0, 2, 3, 1), pb=2))               # n mod T != 0, 2 rounds
    out.append(_loop(loop_case(2, 2, 0, 2, 4, 2), pb=2))
    out.append(_loop(loop_case(2, 2, 0, 2, 5, 1), pb=1))               # 3 rounds
    for n in (1, 2, 3):
        out.append(_loop(loop_case(0, 0, 0, 3, n, 1), pb=1))           # T = 3: n < T, n = T
    if tier == "thorough":
        out.append(_loop(loop_case(2, 2, 0, 2, 3, 1), pb=3))
        out.append(_loop(loop_case(2, 2, 0, 2, 5, 1), pb=2))
        out.append(_loop(loop_case(0, 0, 0, 3, 2, 1), pb=2))
    return out


L_NOTE = "Trusted: loom's scheduler and C11 memory model; the std facade models of Mutex / sync_channel(0) / park-unpark / Barrier / thread_local in harness/rt/src/shim_loom.rs (conformance scripts explored under loom, `./check C06 --tier thorough`); plain fields of the task block are not race-checked."

prop("C06",
     quick=[{"engine": "L", "prop": "C06", "scenarios": pool_scenarios("quick")}],
     thorough=[{"engine": "L", "prop": "C06", "scenarios": pool_scenarios("thorough") + [{"kind": "shim", "script": s, "pb": None} for s in
               ["rendezvous_value", "rendezvous_blocks", "rendezvous_disconnect", "rendezvous_two", "barrier_2x2", "barrier_3",
                "park_token_first", "park_flag_loop", "park_stale_token", "mutex_lazy"]], "timeout": 3000}],
     assumptions=[
         "thread counts from 0 (a broadcast without auxiliary threads, with and without a panicking call) up to 4 workers (loom admits 5 threads); histories of up to 3 broadcasts (4 in thorough); larger harnesses preemption-bounded as listed per scenario in coverage.engines[].bounds",
         "std primitives are replaced by facade models (trusted, conformance-tested); plain non-atomic fields of the task block are not race-checked by loom",
     ],
     technique="loom DPOR (stateless exploration of every interleaving, C11 orderings honoured) of the real ThreadPool::broadcast/par_extend; per-execution oracle + loom causality check + liveness registry",
     text="Every interleaving of caller and 1-4 workers for bounded broadcast histories and every panicking subset is executed on the real pool code; each execution is checked for exactly-once calls per index on distinct threads, completion before return, visibility of task writes (loom cell causality), result placement, no access to the task block after return (liveness ids) and worker reuse.",
     note=L_NOTE, engine="L")

prop("C07",
     quick=[{"engine": "L", "prop": "C07", "scenarios": pool_scenarios("quick")}],
     thorough=[{"engine": "L", "prop": "C07", "scenarios": pool_scenarios("thorough"), "timeout": 3000}],
     assumptions=[
         "the quantifier's 'randomised' schedules are not used (sampling is outside this family); coverage is the bounded-exhaustive scenario list",
         "park/unpark is modelled by a per-thread binary token with one spurious wake-up per wait object (loom Notify)",
     ],
     technique="loom DPOR of the real pool with terminal-state analysis: no runnable thread while one is unfinished = deadlock / lost wake-up; unfinished thread after pool drop = leaked worker",
     text="The same executions as C06; the oracle is the scheduler's own terminal-state analysis on every execution: the caller stuck in park (lost or stale wake-up), a worker stuck in recv, or a worker that does not exit after the pool is dropped are all reported as deadlock.",
     note=L_NOTE, engine="L")

prop("C08",
     quick=[{"engine": "L", "prop": "C08", "scenarios": loop_scenarios("quick")}],
     thorough=[{"engine": "L", "prop": "C08", "scenarios": loop_scenarios("thorough"), "timeout": 3000}],
     assumptions=[
         "T in {2,3}, 1-2 rounds; T=3 and multi-round harnesses are preemption-bounded as listed per scenario; larger T by 'randomised schedules' is not used (sampling)",
         "one panic per run, at the first execution of a site on the caller or on a worker, or at its second execution in a later round",
         "engine S slice (real threads, one schedule per case, supplementary): the clauses that do not depend on the schedule - per-position tallies by OS thread name for T in {2,3} with silent threads, one and two rounds - and the panic clause at T = 1",
     ],
     technique="loom DPOR of the real multi-threaded sample loop (bench_loop_threaded + pool + barrier facade + loom thread-locals); trace oracle over the global event order; deadlock detection for the panic clause",
     text="Every interleaving (within the listed preemption bounds) of T benchmark threads running the real sample loop is checked: in each round no start timestamp precedes another thread's last generation / counting / tally clear, no drop precedes another thread's end timestamp, each stored tally equals the thread's own timed operations, and a panic injected at any (thread, phase) ends the run with a panic on the caller and no deadlock.",
     note=L_NOTE, engine="L")

# loom slices of C01/C02/C03
PROPS["C01"]["quick"].append({"engine": "L", "prop": "C01", "scenarios": loop_scenarios("quick")})
PROPS["C01"]["thorough"].append({"engine": "L", "prop": "C01", "scenarios": loop_scenarios("thorough"), "timeout": 3000})
PROPS["C02"]["quick"].append({"engine": "L", "prop": "C02", "scenarios": loop_scenarios("quick", panics=False)})
PROPS["C02"]["thorough"].append({"engine": "L", "prop": "C02", "scenarios": loop_scenarios("thorough", panics=False), "timeout": 3000})
PROPS["C03"]["quick"].append({"engine": "L", "prop": "C03", "scenarios": c03_loop_scenarios("quick")})
PROPS["C03"]["thorough"].append({"engine": "L", "prop": "C03", "scenarios": c03_loop_scenarios("thorough"), "timeout": 3000})


def tally_scenarios(tier):
    out = []
    codes = (0, 1, 2, 3, 4)
    # two threads x two operations each
    small = (0, 1, 2) if tier == "quick" else codes
    for a in itertools.product(small, repeat=2):
        for b in itertools.product(small, repeat=2):
            out.append({"kind": "tally", "threads": 2, "ops": [list(a), list(b)], "pb": None})
    # three threads x one operation each
    for ops in itertools.product(codes if tier == "thorough" else small, repeat=3):
        out.append({"kind": "tally", "threads": 3, "ops": [[o] for o in ops], "pb": None})
    if tier == "thorough":
        for a in itertools.product((0, 1, 3), repeat=3):
            out.append({"kind": "tally", "threads": 2, "ops": [list(a), [2, 1, 0]], "pb": None})
        out.append({"kind": "tally", "threads": 4, "ops": [[0, 1], [2], [3], [4, 0]], "pb": 3})
    return out


prop("C09",
     quick=[{"engine": "S", "bin": "c09", "parts": 4}],
     thorough=[{"engine": "S", "bin": "c09", "parts": 16, "timeout": 3000}],
     assumptions=[
         "request sequences up to depth 3; layouts: sizes {0,1,8,4096,2^40,isize::MAX-4095} x alignments {1,8,4096} at depth 1, a reduced set at depth 2-3",
         "'never allocates' is decided for the enumerated thread phases on Linux / thread_local!; the macOS pthread_key path is not compiled here",
         "allocations are watched at two levels: Rust's global allocator (a tripwire) and the C heap below it (the process replaces malloc / calloc / realloc / memalign / aligned_alloc / posix_memalign and forwards to __libc_*; glibc resolves its internal calls to the replacement)",
         "engine S is built with arithmetic overflow checks (-C overflow-checks=on), as debug builds are: all pairs and triples of the largest valid requests (about isize::MAX bytes) are part of the alphabet",
     ],
     technique="bounded-exhaustive enumeration of allocator request sequences x scripted return values x thread phases against a logging mock allocator, with a tripwire global allocator and a replaced C heap (public API only)",
     text="Every request of the alphabet (depth 1), every pair over a reduced alphabet and every triple over one layout is issued through the real AllocProfiler<Mock> on a fresh thread, a warmed-up thread and inside a TLS destructor during thread exit (registered before / after first use); the mock's call log must equal the request sequence argument for argument, every returned pointer the scripted one (null included), and neither the tripwire global allocator nor the replaced C heap may see an allocation by that thread meanwhile; no request may panic (overflow-checked build).",
     note="Trusted: the mock and tripwire in harness/mc-seq/src/bin/c09.rs (allocation-free by construction: fixed static arrays).", engine="S")

prop("C10",
     quick=[{"engine": "S", "bin": "c10", "parts": 8}, {"engine": "L", "prop": "C10", "scenarios": tally_scenarios("quick"), "timeout": 300}],
     thorough=[{"engine": "S", "bin": "c10", "parts": 41, "timeout": 3000}, {"engine": "L", "prop": "C10", "scenarios": tally_scenarios("thorough"), "timeout": 900}],
     assumptions=[
         "operation sizes from {0,1,7,4096,2^40}; search depth 6 (7 thorough) from the cleared state with `clear` as a transition; the invariant is re-established from scratch (whole-history reference) in every reached state, so longer sequences are covered inductively per step plus four explicit histories of 5000 (20000) operations",
         "cross-thread clause: 2-3 (4 thorough, preemption bound 3) threads with 1-3 operations each under loom, every op-level interleaving; thread counts up to 8 are not enumerated",
         "reading of `operations performed`: a request counts whether or not the wrapped allocator satisfies it (the tally is taken before the request is forwarded, for all four entry points alike); transitions therefore include alloc / alloc_zeroed / realloc requests that the mock refuses (null) over sizes {0,7,2^40}, with the same expected figures",
     ],
     technique="explicit-state breadth-first search with de-duplication over the real ThreadAllocInfo driven through the real AllocProfiler<Mock>; whole-history reference model in every state; loom DPOR for the per-thread clause",
     text="BFS over the real thread-local tally: transitions are alloc / alloc_zeroed / dealloc / realloc over five sizes plus clear, applied by the real profiler after setting the thread-local to the state; in every reached state all four (count, bytes) pairs, the live balances and the peak count / peak size must equal a reference recomputed from the whole history (prefix-balance scan). Under loom, threads drive the real profiler concurrently and each thread's tally must equal its own script.",
     note="Trusted: hook tally_get/tally_set (plain-data mirror of ThreadAllocInfo), the mock allocator, the reference in harness/mc-seq/src/bin/c10.rs; loom thread-local facade for the cross-thread clause.", engine="S+L")


prop("C16",
     quick=[{"engine": "S", "bin": "c16", "parts": 4}],
     thorough=[{"engine": "S", "bin": "c16", "parts": 8, "timeout": 3000}],
     assumptions=[
         "natural_cmp: all 2801 strings of length <= 4 over {0,1,9,a,B,_,e-acute}; transitivity on all triples of the length <= 3 subset (all length <= 4 triples in thorough)",
         "argument labels: 40-label alphabet (22 numeric incl. negatives, floats, integers beyond 2^53 and 2^64; 10 identifiers; 8 odd spellings); lists of length <= 4 (5 thorough) over four 6-7 label pools; mixed numeric / non-numeric lists are checked for permutation, exact reverse and no panic only (the statement defines no order for them)",
         "sibling sets of <= 3 (4 thorough) nodes over 7 node kinds x 6 names x 5 location layouts; a plain module has two items at both ends of the location range (and, as the seventh kind, a nested plain module); distinct items never share an exact file:line:column except in the dedicated tie layout",
         "'kind' is taken as the implementation's leaf / parent split (a generic benchmark is a parent)",
     ],
     technique="bounded-exhaustive enumeration of names, argument labels, argument lists and sibling sets on the real comparators and EntryTree::sort_by_attr; total-preorder axioms on all triples; reference key order",
     text="natural_cmp is compared with a token-list reference on every pair and checked for reflexivity, antisymmetry and transitivity on all triples; the runtime-argument comparator must equal exact value order on numeric labels and natural order on identifiers and be a total preorder on all triples over the whole alphabet (failures are turned into concrete 24-element lists sorted by the real tree code); all short argument lists and all small sibling sets are sorted through the real tree for the 3 attributes x 2 directions and compared with the reference order, as permutations with original argument indices, and --sortr with the exact reverse.",
     note="Trusted: hook wrappers natural_cmp / cmp_arg_names / tree (src/verif.rs) and the references in harness/mc-seq/src/bin/c16.rs.", engine="S")


prop("C18",
     quick=[{"engine": "S", "bin": "c18"}],
     thorough=[{"engine": "S", "bin": "c18", "timeout": 3000}],
     assumptions=[
         "u128 is not enumerable: every picosecond value below 2 us (5 us thorough), windows m*U/1000 + [-2,2] for m <= 12000 (60000) around every unit U, 10^k and 2^k +-1 up to the top of the range, day counts around 10^4",
         "byte sizes and throughputs: the statement allows double-precision rounding, so a rendering is accepted when it is the reference rendering of a real within 1e-9 (relative) of the exact rational; values with five or more integer digits accept any integer in that interval",
         "default precision (4 significant digits), the only one the table uses; widths 0, 8, 14",
     ],
     technique="bounded-exhaustive enumeration of picosecond values / counts x durations / byte sizes on the real Display implementations against an exact integer / rational reference",
     text="Every enumerated picosecond value is formatted by the real FineDuration Display and compared with the statement computed in integer arithmetic (unit = largest not exceeding the value, sub-ns in ns, truncation to max(0, 4-d) decimals, no trailing zeros, integer digits kept); throughputs for all counter kinds and both byte formats and byte sizes are compared with an exact rational reference (256-bit arithmetic) including 0 and inf cases; no formatter may panic.",
     note="Trusted: hook wrappers fmt_duration / fmt_throughput / fmt_bytes and the reference in harness/mc-seq/src/bin/c18.rs.", engine="S")

prop("C13",
     quick=[{"engine": "S", "bin": "c13", "parts": 8}],
     thorough=[{"engine": "S", "bin": "c13", "parts": 16, "timeout": 3000}],
     assumptions=[
         "filter alphabet of 10 (5 regex incl. anchors and alternation, 5 exact incl. inner-node and non-path strings); operation sequences up to depth 4 over 8 filters (depth 5 over 10 thorough), every insertion order; 77 candidate paths",
         "regular-expression matching in the reference uses the same regex-lite engine: the property is about selection logic, not about the regex engine",
         "trees: every subset of <= 4 (5) of 8 items (benches, args benches, group with custom display name, nested modules) x every filter set of <= 2 (3) filters; end-to-end selection through the CLI is covered by engine Z",
     ],
     technique="explicit-state enumeration of FilterSet operation histories with invariant check on every state; bounded-exhaustive enumeration of (tree, filter set) on the real EntryTree::retain against a per-case reference selection",
     text="Every include/exclude history up to the depth is replayed into the real FilterSet (with and without reserve_exact) and is_match is compared with the rule for every path of the alphabet; every small tree x filter set is pushed through the real tree construction + retain and the retained leaves, arguments and parent nodes are compared with the per-case reference.",
     note="Trusted: hook wrappers Filters / tree and the references in harness/mc-seq/src/bin/c13.rs.", engine="S")

prop("C15",
     quick=[{"engine": "S", "bin": "c15"}],
     thorough=[{"engine": "S", "bin": "c15"}],
     assumptions=[
         "pairwise-exhaustive over the 11 option fields x 5 levels (interference among three or more fields at once only for single-level triples in thorough); 2^55 full assignments are not enumerable",
         "function level: BenchOptions::overwrite folded the way run_tree / run_bench_entry fold it; CLI flag vs environment vs builder and the ignore flags are decided end-to-end by engine Z (not yet built in this round)",
     ],
     technique="bounded-exhaustive (pairwise) enumeration of option assignments over levels on the real BenchOptions::overwrite; Bencher::counter sequences through the real loop; thread-list normalisation",
     text="For every pair of option fields and every pattern of levels setting them, the options are folded with the real overwrite exactly as the runner descends the tree and every field must equal the first value in priority order runner > benchmark > inner > mid > outer group, independently of the other field; Bencher::counter sequences against all inherited-counter patterns must replace only their own kind; thread lists normalise to sorted, de-duplicated lists.",
     note="Trusted: hook wrappers options_overwrite / counter_set_get / counter_set_insert and the fold order replicated in harness/mc-seq/src/bin/c15.rs.", engine="S")


prop("C05",
     quick=[{"engine": "S", "bin": "c05", "parts": 4}],
     thorough=[{"engine": "S", "bin": "c05", "parts": 8, "timeout": 3000}],
     assumptions=[
         "injected samples: all duration sequences of length 0..5 over {0,1,2,3,7,1000,2^64+1} ps x sample sizes {1,2,3,1000} x 5 tally-presence masks x counter modes (none / constant / per-sample for one kind; all four kinds and a second constant kind in thorough)",
         "with ties the very samples that supplied fastest / slowest / median are not unique: the oracle requires one admissible choice of samples that explains all allocation and counter figures at once",
         "floating-point allocation figures are compared with relative tolerance 1e-9; times and counters exactly",
         "when both Bencher::counter and input_counter of one kind are given the statement does not say which wins: either reading is accepted, anything else is a violation",
         "thread counts > 1 only change which samples are recorded (C03/C08), not how statistics are computed from them",
     ],
     technique="bounded-exhaustive enumeration of injected sample sequences through the real compute_stats against an exact integer reference; scripted-clock runs of the real loop comparing recorded samples with the clock and statistics with the recorded samples",
     text="Every enumerated sample sequence is injected into a real BenchContext and compute_stats must return exactly min/s, max/s, floor-mean-of-middle/s, floor(total/(s*n)), sample and iteration counts, means over all samples, and allocation / counter figures of the very samples that supplied fastest, slowest and median (one consistent choice under ties), with no panic and no NaN, including for zero samples; scripted-clock loop runs additionally check recorded durations (overhead subtraction, precision floor) and per-input counter values against the event log.",
     note="Trusted: hooks stats_of / verif_parts / run_bencher, the virtual clock, and the reference in harness/mc-seq/src/bin/c05.rs.", engine="S")


def c04_loop_scenarios(tier):
    out = []
    # thread 1 is slower (skew): the slowest thread / the latest end decides.
    # n = 4 on T = 2 needs two rounds unless max_time (3 ns) is reached after the first:
    # thread 0 takes 1 ns, thread 1 takes 4 ns.
    for skip in (True, False):
        out.append(_loop(loop_case(2, 2, 0, 2, 4, 1, skip_ext=skip, max_time_ns=3, thread_skew=3000, read_cost=0, alloc=[0] * 5, input_counters=0), pb=2))
        out.append(_loop(loop_case(2, 2, 0, 2, 2, 1, skip_ext=skip, min_time_ns=3, thread_skew=3000, read_cost=0, alloc=[0] * 5, input_counters=0), pb=2))
    # the limit equals the whole round (1 ns + 4 ns on the shared clock): in the schedules where the
    # calling thread runs its sample after the worker, it is thread 0 that supplies the latest end (5 ns)
    # while the highest-numbered thread ended at 4 ns
    out.append(_loop(loop_case(2, 2, 0, 2, 4, 1, skip_ext=False, max_time_ns=5, thread_skew=3000, read_cost=0, alloc=[0] * 5, input_counters=0), pb=2))
    out.append(_loop(loop_case(2, 2, 0, 2, 2, 1, skip_ext=None, min_time_ns=5, thread_skew=3000, read_cost=0, alloc=[0] * 5, input_counters=0), pb=2))
    if tier == "thorough":
        for skip in (True, False):
            out.append(_loop(loop_case(2, 2, 0, 2, 4, 1, skip_ext=skip, max_time_ns=3, thread_skew=3000, read_cost=0, alloc=[0] * 5, input_counters=0), pb=3))
            out.append(_loop(loop_case(2, 2, 0, 2, 2, 1, skip_ext=skip, min_time_ns=6, max_time_ns=9, thread_skew=3000, read_cost=1, alloc=[0] * 5, input_counters=0), pb=2))
    return out


def c19_loop_scenarios(tier):
    out = []
    # 30 ns per call, thread 1 takes 30 ns more: at size 2 thread 0 measures 60 ns (below
    # 101 x 1 ns), thread 1 measures 120 ns: the slowest thread ends tuning at size 2.
    out.append(_loop(loop_case(2, 2, 0, 2, 2, None, cost=[[0], [0], [30000], [0], [0]], thread_skew=30000, read_cost=0, alloc=[0] * 5, input_counters=0), pb=2))
    if tier == "thorough":
        out.append(_loop(loop_case(2, 2, 0, 2, 2, None, cost=[[0], [0], [30000], [0], [0]], thread_skew=30000, read_cost=0, alloc=[0] * 5, input_counters=0), pb=3))
        out.append(_loop(loop_case(4, 3, 3, 2, 2, None, cost=[[0], [0], [60000], [0], [0]], thread_skew=50000, read_cost=1), pb=2))
    return out


prop("C04",
     quick=[{"engine": "S", "bin": "timemc", "args": ["--prop", "C04"], "parts": 8}, {"engine": "L", "prop": "C04", "scenarios": c04_loop_scenarios("quick")}],
     thorough=[{"engine": "S", "bin": "timemc", "args": ["--prop", "C04"], "parts": 16, "timeout": 3000}, {"engine": "L", "prop": "C04", "scenarios": c04_loop_scenarios("thorough"), "timeout": 3000}],
     assumptions=[
         "clock histories: per-round (generation, call, drop) costs constant over {0, 0.4, 1, 2, 5} ns plus two-round alternations of the call cost (thorough: all four-round histories over {0,1,5} ns), per-read cost 0 or 1 tick; n in {1,2,3}, s in {1,2}; min_time in {unset,0,3,7,50 ns}, max_time in {unset,0,1,4,6 ns,Duration::MAX}",
         "histories under which the loop cannot terminate within 64 rounds (frozen clock with min_time > 0 and external time counted, ...) are excluded and counted: no real clock behaves that way",
         "T = 1 exhaustively; T = 2 ('slowest thread', 'latest end') in four loom scenarios with preemption bound 2 (3 thorough)",
     ],
     technique="bounded-exhaustive enumeration of (options x scripted clock history) on the real sample loop; the documented continue/stop rule is re-evaluated on the logged clock readings after every round (trace-checking reference); loom DPOR for the multi-thread clause",
     text="For every enumerated configuration and clock history the real loop is run under the virtual clock; from the logged reads the elapsed time after each round is reconstructed by the documented rule (newest end minus initial start, or the sum of the slowest timed sections counted as at least 1 ns with skip_ext_time) and the loop must have executed exactly the smallest number of rounds R with elapsed_R >= max or (recorded >= n and elapsed_R >= min), 0 rounds for max = 0, max winning over min.",
     note=LOOP_NOTE, engine="S+L")

prop("C19",
     quick=[{"engine": "S", "bin": "timemc", "args": ["--prop", "C19"], "parts": 16}, {"engine": "L", "prop": "C19", "scenarios": c19_loop_scenarios("quick")}],
     thorough=[{"engine": "S", "bin": "timemc", "args": ["--prop", "C19"], "parts": 16, "timeout": 3000}, {"engine": "L", "prop": "C19", "scenarios": c19_loop_scenarios("thorough"), "timeout": 3000}],
     assumptions=[
         "forced precision 1000 ps; per-iteration cost models: constant from precision/10 to 10^4 x precision, growing, shrinking, 81 noisy four-round patterns; sample counts {1,2,3,100}; max_time cutting tuning after 1-3 rounds; min_time and skip_ext_time on/off",
         "zero-cost functions under a frozen clock (the size would overflow u32 after 32 doublings) are excluded and counted",
         "when max_time ends the run before any round passed the threshold the statement does not say what is reported; the check requires only that all reported samples have one size (the newest round's)",
         "T = 1 exhaustively; the 'slowest thread' clause for T = 2 in loom scenarios with preemption bound 2 (3 thorough)",
     ],
     technique="bounded-exhaustive enumeration of (cost model x options) on the real sample loop in tuning mode; reference tuner re-evaluated on the logged clock readings (round sizes, threshold round, kept samples, stale data)",
     text="For every cost model and option set the real loop is run with automatic sample size; the reference tuner over the logged reads requires round sizes 1,2,4,... until the first round whose slowest sample measures more than 100 whole multiples of the precision, that size for all later rounds, recorded samples = threshold round onwards with tallies and per-input counter values of earlier rounds gone, and the max_time rule applied to elapsed time including the tuning rounds.",
     note=LOOP_NOTE, engine="S+L")


Z_NOTE = "Trusted: the zoo generator and its reference model (lib/zoogen.py, lib/zoofam.py), the zoo runtime (invocation log, entry dump through the public __private lists and the verif views), the output parser in lib/zoo.py. Locations are predicted for one canonical layout (attribute on its own line, item on the next), as tests/entry_properties.rs pins it."

prop("C12",
     quick=[{"engine": "Z", "prop": "C12"}],
     thorough=[{"engine": "Z", "prop": "C12", "zoo_tier": "thorough"}],
     assumptions=[
         "programs: the bounded grammar of lib/zoogen.py (item forms x placements, exhaustively within the tier's bound), not random crates; programs that do not compile (e.g. names differing only in case in one module) are outside the grammar",
         "link / constructor order cannot be enumerated by a black-box run; order independence of tree construction is decided at function level by the permutation check of C13's engine-S run (every permutation of the entry lists)",
     ],
     technique="bounded-exhaustive program enumeration (one generated crate holding every item form x placement) compiled with the real macros; black-box comparison of the entry lists, --list tree, terse listing and --test invocation log with the generator's reference model",
     text="Every form of #[divan::bench] / #[divan::bench_group] item of the grammar at every placement is compiled with the real macros; the registered entries (module path, raw and display name, file/line/column, ignore and sample options, argument labels, generic type x const matrix), the --list tree, the terse listing and the invocation log of a full test run must each equal the prediction: one runnable benchmark per types x consts combination and one case per args value, nothing else, nothing twice, empty lists registering nothing, args expressions evaluated once.",
     note=Z_NOTE, engine="Z")


prop("C14",
     quick=[{"engine": "Z", "prop": "C14"}],
     thorough=[{"engine": "Z", "prop": "C14", "zoo_tier": "thorough"}],
     assumptions=[
         "programs: the zoo grammar (see C12) including the ignore family: ignore set directly (option and attribute), inherited from a group, from an outer group through a plain module and through an inner group, overridden to false on a benchmark and on an inner group, re-ignored below",
         "configurations: 40 filter sets (quick; the thorough tier uses a third of ~400) x {no flag, --ignored, --include-ignored}; the --exact feed-back is run for every listed path",
     ],
     technique="bounded-exhaustive black-box runs of the generated crate: terse listing vs. test run vs. --list vs. Divan::list_benches for every (filter set, ignore flag), invocation log as the 'ran anything' oracle, --exact feed-back of every listed path",
     text="For every filter set and ignore flag the zoo is run as `--list --format terse` (under NEXTEST=1), `--test` and `--list`; listing runs must leave the invocation log empty (no benchmarked function, generator, counter or destructor), the terse output must be exactly one `path: benchmark` line per case the test run executed, and every listed path fed back as the only --exact filter must execute exactly that case. Divan::list_benches is exercised through the zoo's builder switch.",
     note=Z_NOTE, engine="Z")

prop("C17",
     quick=[{"engine": "Z", "prop": "C17"}],
     thorough=[{"engine": "Z", "prop": "C17", "zoo_tier": "thorough"}],
     assumptions=[
         "argument kinds of the grammar: array literal, slice const, range, Vec<String>, [&str; N], &[&str], [String; N], Vec<Cow<str>>, [f64; N], chars (also with a NUL among them: such paths cannot be written on a command line and are decided by the family runs only), a Debug-only type; lengths 0,1,2,3,4,21,30 (the larger ones and several kinds in the thorough zoo only); types x consts in both generic orders",
         "filters keeping strict subsets: every single argument and every all-but-one for the first 6 labels, under 6 sorts for the full list (2 sorts per subset in quick)",
     ],
     technique="bounded-exhaustive black-box runs of the generated crate: every case alone via --exact, whole families under every sort x argument-subset filter, comparing the label with the value / type / const the body received (invocation log) and display order with invocation order; plus bounded-exhaustive enumeration of short argument lists (repeats included) on the real BenchArgs / EntryTree code: one label per value, leading back to its position",
     text="Every case with an argument, type or const is run alone (`--test --exact <path>`) and its body must log exactly the argument whose rendering is the label, the type so named and the const so printed; families with runtime arguments are run under 6 sort orders and under filters keeping single arguments and all-but-one, where the k-th displayed row must be the k-th invocation with the labelled value; args expressions are evaluated once per process and shared by generic instantiations.",
     note=Z_NOTE, engine="Z")

# end-to-end slices through the command line
PROPS["C13"]["quick"].append({"engine": "Z", "prop": "C13"})
PROPS["C13"]["thorough"].append({"engine": "Z", "prop": "C13", "zoo_tier": "thorough"})
META["C13"]["engine"] = "S+Z"


prop("C20",
     quick=[{"engine": "Z", "prop": "C20"}],
     thorough=[{"engine": "Z", "prop": "C20", "zoo_tier": "thorough"}],
     assumptions=[
         "tree shapes: all ordered forests with <= 4 (6 thorough) nodes below a family root with leaf kinds assigned systematically, plus the forms / ignore / sort / nested families; names of width 1 and 8, wide and non-ASCII display names; names containing the box glyphs or line breaks are outside the alphabet",
         "rows: with and without counters (attribute, Bencher::counter, per-input, CLI --items-count / --bytes-count / --chars-count, binary and decimal), with and without allocation rows, thread-count branches, zero samples; actions bench (virtual clock, --timer tsc), test, list; 3 sort settings",
         "statistics cells are compared with the real formatters applied (in the hook, independently of the painter) to the Stats tapped for that benchmark; the formatters themselves are C18's subject",
     ],
     technique="bounded-exhaustive enumeration of tree shapes x row kinds x actions as black-box runs of the generated crate; the output is parsed back from indentation and glyphs alone and compared with the reference display tree and, cell by cell, with the tapped statistics",
     text="Every tree shape family is run under bench (deterministic virtual clock), test and list actions and several counter / sort / ignore variants; a parser rebuilds the tree from indentation and box glyphs alone (failure, a bar not exactly under ancestors with later siblings, a corner that is not the last child are violations); the parsed tree must equal the reference tree of selected, sorted nodes (each once, depth first, thread-count and argument branches included), the header must carry the six headings, every statistics row and continuation row must equal the tapped statistics of that benchmark in order and carry its prefix, and (ignored) rows must not have run.",
     note=Z_NOTE + " The statistics tap (hook H7) formats with the real formatters outside the painter.", engine="Z")


# further end-to-end slices through the compiled binary
PROPS["C03"]["quick"].append({"engine": "Z", "prop": "C03"})
PROPS["C03"]["thorough"].append({"engine": "Z", "prop": "C03", "zoo_tier": "thorough"})
META["C03"]["engine"] = "S+L+Z"
# concurrent registration on the real lock-free entry list (engine L)
def entrylist_scenarios(tier):
    out = [{"kind": "entrylist", "pushes": p, "pb": None} for p in ([1, 1], [2, 1], [1, 2], [2, 2], [1, 1, 1])]
    if tier == "thorough":
        out += [{"kind": "entrylist", "pushes": p, "pb": None} for p in ([3, 2], [2, 1, 1], [2, 2, 1])]
        out.append({"kind": "entrylist", "pushes": [2, 2, 2], "pb": 3})
        out.append({"kind": "entrylist", "pushes": [1, 1, 1, 1], "pb": 3})
    return out


PROPS["C12"]["quick"].append({"engine": "L", "prop": "C12", "scenarios": entrylist_scenarios("quick"), "timeout": 300})
PROPS["C12"]["thorough"].append({"engine": "L", "prop": "C12", "scenarios": entrylist_scenarios("thorough"), "timeout": 900})
META["C12"]["engine"] = "Z+S+L"
PROPS["C12"]["assumptions"].append("engine L: `EntryList::push` (the list behind BENCH_ENTRIES / GROUP_ENTRIES, documented as thread-safe although constructors run single-threaded) under loom: 2-3 threads pushing 1-2 nodes each, every interleaving and every spurious compare_exchange_weak failure loom generates; every node must be found exactly once afterwards")
PROPS["C18"]["quick"].append({"engine": "Z", "prop": "C18"})
PROPS["C18"]["thorough"].append({"engine": "Z", "prop": "C18", "zoo_tier": "thorough"})
META["C18"]["engine"] = "S+Z"
PROPS["C18"]["assumptions"].append("engine Z: the configured byte format must reach the printed cells by every route (default, --bytes-format, DIVAN_BYTES_FORMAT, builder before / after the arguments are read, command line over builder): the prefix family of every byte cell is observed, nothing more")
for _p in ("C04", "C19"):
    PROPS[_p]["quick"].append({"engine": "Z", "prop": _p})
    PROPS[_p]["thorough"].append({"engine": "Z", "prop": _p, "zoo_tier": "thorough"})
    META[_p]["engine"] = "S+L+Z"
    PROPS[_p]["assumptions"].append("engine Z: the options and pairwise families of the zoo under the virtual clock (a call costs a fixed number of ticks, nothing else advances the clock, one thread): call counts, samples and iters must equal the documented sampling rule for time options given as attribute (Duration / float seconds, benchmark and group level), command-line flag, DIVAN_* variable and builder call; several threads with a time limit or an automatic size are excluded (clock readings depend on the schedule)")
PROPS["C15"]["quick"].append({"engine": "Z", "prop": "C15"})
PROPS["C15"]["thorough"].append({"engine": "Z", "prop": "C15", "zoo_tier": "thorough"})
META["C15"]["engine"] = "S+Z"
PROPS["C15"]["assumptions"] = [
    "function level: pairwise-exhaustive over the 11 option fields x 5 levels (interference among three or more fields at once only for single-level triples in thorough); 2^55 full assignments are not enumerable",
    "end to end (engine Z): benchmark + 3 nested group levels with all 16 set/unset patterns for sample_count and for sample_size, inherited threads / counters through groups and a plain module, x 17 runner sources (CLI flag, DIVAN_* variable, builder call, CLI over environment); observed through call counts, samples / iters, counter rows, thread branches; the three ignore flags on the ignore family",
    "automatic sample size with several threads is excluded from call-count prediction (clock readings depend on the schedule)",
    "time options end to end: max_time / min_time / skip_ext_time as attribute (Duration, float seconds; benchmark and group level), --max-time / --min-time / --skip-ext-time (flag and =false), DIVAN_* variables, builder calls, CLI over environment; under the virtual clock a call costs a fixed number of ticks (an input of the costly generator 3000), so round counts follow exactly from the documented sampling rule (lib/zoo.py simulate)",
    "every spelling of threads (bool, integer, literal array, range, vec!, [] , [0, N]), of counters (bytes_count.., counter = X, counters = [..]) and of ignore (option, #[ignore], #[ignore = \"reason\"]); per-input counters of all four kinds; the pairwise feature family (every compatible pair of 21 item features)",
]
PROPS["C16"]["quick"].append({"engine": "Z", "prop": "C16"})
PROPS["C16"]["thorough"].append({"engine": "Z", "prop": "C16", "zoo_tier": "thorough"})
META["C16"]["engine"] = "S+Z"
PROPS["C08"]["quick"].append({"engine": "Z", "prop": "C08"})
PROPS["C08"]["thorough"].append({"engine": "Z", "prop": "C08"})
META["C08"]["engine"] = "L+Z"
PROPS["C08"]["assumptions"].append("engine Z adds four single real-thread executions of the compiled binary with a panicking thread (60 s cap): supplementary evidence, one schedule each; the verdict comes from the loom exploration")


# C12, order independence at function level: every permutation of the entry lists
PROPS["C17"]["quick"].append({"engine": "S", "bin": "c13", "args": ["argnames"]})
PROPS["C17"]["thorough"].append({"engine": "S", "bin": "c13", "args": ["argnames"]})
META["C17"]["engine"] = "Z+S"
PROPS["C17"]["assumptions"].append("argument lists with repeated labels are outside the zoo (every black-box oracle identifies a case by its path); for them engine S checks, on the real BenchArgs / EntryTree code, that every value of every list of <= 4 values over a 3-letter alphabet gets one label, its own rendering, leading back to its own position, under every sort - which position the runner then fetches is not observed for repeated labels")
PROPS["C12"]["quick"].append({"engine": "S", "bin": "c13", "args": ["perm"], "parts": 8})
PROPS["C12"]["thorough"].append({"engine": "S", "bin": "c13", "args": ["perm"], "parts": 16, "timeout": 3000})
META["C12"]["engine"] = "Z+S"


# exact allocation figures through the real global AllocProfiler and real threads
PROPS["C02"]["quick"].append({"engine": "Z", "prop": "C02"})
PROPS["C02"]["thorough"].append({"engine": "Z", "prop": "C02"})
META["C02"]["engine"] = "S+L+Z"
PROPS["C02"]["assumptions"].append("engine Z: three benchmarks with an exactly known allocation pattern (one 32-byte allocation per call; 64-byte input allocated before the start; output dropped after the end) run through the real global AllocProfiler on 1 and 2 real threads under 4 option variants; figures per iteration must be exactly 1 / 32 B / no dealloc")
PROPS["C10"]["quick"].append({"engine": "Z", "prop": "C10"})
PROPS["C10"]["thorough"].append({"engine": "Z", "prop": "C10"})
META["C10"]["engine"] = "S+L+Z"
PROPS["C10"]["assumptions"].append("engine Z: the same exact-allocation benchmarks through the real System allocator wrapper on 1 and 2 real threads (per-thread tallies must not mix)")


# C08 panic clause at function level for T = 1 and every round (the run must end with a panic on the caller)
PROPS["C08"]["quick"].append({"engine": "S", "bin": "loopmc", "args": ["--prop", "C08"], "parts": 4})
PROPS["C08"]["thorough"].append({"engine": "S", "bin": "loopmc", "args": ["--prop", "C08"], "parts": 8})
META["C08"]["engine"] = "L+S+Z"
PROPS["C08"]["assumptions"].append("engine S re-uses the C01 enumeration (T = 1, panic at the first / second / last execution of every site) for the clause that a panic ends the run with a panic on the calling thread; loom scenarios add panics in the second round for T = 2")

PROPS["C20"]["assumptions"].append("argument lists with repeated labels (two cases under one path) are outside the zoo: which argument the runner fetches for the second of two equal labels is not observed (open gap, DESIGN 10.8; seeded/C20-r13-arg-index-by-label-equality is not detected)")
