#!/usr/bin/env python3
"""Applies a patch to /repo, runs the given checks, and restores /repo.
   usage: trymut.py <patch.diff> [--tier quick] <ID> [<ID> ...]
Prints one line per check: DETECTED / MISSED / MACHINERY."""
import subprocess, sys, os
REPO = os.environ.get("TRYMUT_REPO", "/repo")
ROOT = os.path.dirname(os.path.dirname(os.path.abspath(__file__)))
args = sys.argv[1:]
patch = os.path.abspath(args[0]); args = args[1:]
tier = "quick"
if args and args[0] == "--tier":
    tier = args[1]; args = args[2:]
st = subprocess.run(["git", "-C", REPO, "status", "--porcelain", "--untracked-files=no"], stdout=subprocess.PIPE, text=True).stdout
if st.strip():
    sys.exit("refusing: the repository has uncommitted changes:\n" + st)
r = subprocess.run(["git", "-C", REPO, "apply", patch])
if r.returncode != 0:
    sys.exit("patch does not apply")
try:
    for pid in args:
        p = subprocess.run([os.path.join(ROOT, "check"), pid, "--tier", tier], cwd=ROOT, stdout=subprocess.PIPE, stderr=subprocess.PIPE, text=True)
        verdict = {0: "MISSED", 1: "DETECTED"}.get(p.returncode, "MACHINERY")
        lines = [l for l in (p.stdout + p.stderr).splitlines() if l.strip()]
        first = next((l for l in lines if not l.startswith(("VIOLATION", "KNOWN", "OK "))), "")
        print("%s %s rc=%d  %s" % (verdict, pid, p.returncode, first.strip()[:260]))
        if verdict == "MACHINERY":
            print("\n".join(lines[-12:]))
finally:
    subprocess.run(["git", "-C", REPO, "checkout", "--", "."])
    subprocess.run(["git", "-C", REPO, "clean", "-fdq", "src", "macros", "tests"])
    # evidence files were rewritten by the runs on the mutated tree: restore committed ones
    subprocess.run(["git", "-C", ROOT, "checkout", "--", "evidence"], stderr=subprocess.DEVNULL)
