//! Global event log. Oracles are trace checkers over this log.

use std::sync::atomic::{AtomicBool, Ordering::SeqCst};
use std::sync::Mutex;

#[derive(Clone, Copy, PartialEq, Eq, Debug, Hash)]
#[repr(u8)]
pub enum Kind {
    /// input generator returned value `a` (id; 0 for zero-sized)
    Gen = 0,
    /// input counter of kind `b` saw value `a`
    Count = 1,
    /// virtual clock read at sample start, `a` = value
    TsStart = 2,
    /// virtual clock read at sample end, `a` = value
    TsEnd = 3,
    /// benchmarked function called with input `a`
    Call = 4,
    /// output `a` dropped
    DropOut = 5,
    /// input `a` dropped
    DropIn = 6,
    /// allocator operation performed through the profiler: `a` = op code, `b` = packed sizes
    AllocOp = 7,
    /// the thread's tally was cleared
    TallyCleared = 8,
    /// arrived at / left a facade barrier (loom backend only)
    BarrierArrive = 9,
    BarrierLeave = 10,
    /// worker thread spawned (`a` = running count)
    Spawn = 11,
    /// harness-defined marker
    Mark = 12,
}

#[derive(Clone, Copy, PartialEq, Eq, Debug, Hash)]
pub struct Event {
    pub thread: u32,
    pub kind: Kind,
    pub a: u64,
    pub b: u64,
}

static ENABLED: AtomicBool = AtomicBool::new(false);
static LOG: Mutex<Vec<Event>> = Mutex::new(Vec::new());

/// Clears the log and turns recording on. Call on the thread that is to be
/// thread 0 (the "caller").
pub fn reset() {
    thread_ids::reset();
    let mut l = LOG.lock().unwrap_or_else(|e| e.into_inner());
    l.clear();
    ENABLED.store(true, SeqCst);
    drop(l);
    // Make the calling thread index 0.
    let _ = thread_index();
}

pub fn stop() {
    ENABLED.store(false, SeqCst);
}

pub fn is_enabled() -> bool {
    ENABLED.load(SeqCst)
}

#[inline]
pub fn event(kind: Kind, a: u64, b: u64) {
    if !ENABLED.load(SeqCst) {
        return;
    }
    let thread = thread_index();
    LOG.lock().unwrap_or_else(|e| e.into_inner()).push(Event { thread, kind, a, b });
}

/// Tap used by the hook in `ThreadAllocInfo::clear`.
#[inline]
pub fn tally_cleared() {
    event(Kind::TallyCleared, 0, 0);
}

pub fn take() -> Vec<Event> {
    std::mem::take(&mut *LOG.lock().unwrap_or_else(|e| e.into_inner()))
}

pub fn snapshot() -> Vec<Event> {
    LOG.lock().unwrap_or_else(|e| e.into_inner()).clone()
}

/// Small dense index of the current (std or loom) thread, in order of first
/// appearance since the last `reset()`.
pub fn thread_index() -> u32 {
    thread_ids::index()
}

/// Makes the next `n` first sightings of threads allocation-free.
pub fn reserve_thread_ids(n: usize) {
    thread_ids::reserve(n);
}

#[cfg(not(feature = "loom"))]
mod thread_ids {
    use std::sync::Mutex;
    use std::thread::ThreadId;

    static IDS: Mutex<Vec<ThreadId>> = Mutex::new(Vec::new());

    pub fn reset() {
        IDS.lock().unwrap_or_else(|e| e.into_inner()).clear();
    }

    pub fn reserve(n: usize) {
        IDS.lock().unwrap_or_else(|e| e.into_inner()).reserve(n);
    }

    pub fn index() -> u32 {
        let me = std::thread::current().id();
        let mut ids = IDS.lock().unwrap_or_else(|e| e.into_inner());
        if let Some(i) = ids.iter().position(|t| *t == me) {
            return i as u32;
        }
        ids.push(me);
        (ids.len() - 1) as u32
    }
}

#[cfg(feature = "loom")]
mod thread_ids {
    use loom::thread::ThreadId;
    use std::sync::Mutex;

    static IDS: Mutex<Vec<ThreadId>> = Mutex::new(Vec::new());

    pub fn reset() {
        IDS.lock().unwrap_or_else(|e| e.into_inner()).clear();
    }

    pub fn reserve(n: usize) {
        IDS.lock().unwrap_or_else(|e| e.into_inner()).reserve(n);
    }

    pub fn index() -> u32 {
        let me = loom::thread::current().id();
        let mut ids = IDS.lock().unwrap_or_else(|e| e.into_inner());
        if let Some(i) = ids.iter().position(|t| *t == me) {
            return i as u32;
        }
        ids.push(me);
        (ids.len() - 1) as u32
    }
}

// ---------------------------------------------------------------------------
// Sections whose panics are caught and turned into data by the caller
// ---------------------------------------------------------------------------

static QUIET: std::sync::atomic::AtomicUsize = std::sync::atomic::AtomicUsize::new(0);

/// Runs `f`; panic hooks consult `in_quiet_section()` and stay silent for panics
/// raised inside (the caller catches them and reports them as data).
pub fn quietly<R>(f: impl FnOnce() -> R) -> R {
    struct Leave;
    impl Drop for Leave {
        fn drop(&mut self) {
            QUIET.fetch_sub(1, SeqCst);
        }
    }
    QUIET.fetch_add(1, SeqCst);
    let _leave = Leave;
    f()
}

pub fn in_quiet_section() -> bool {
    QUIET.load(SeqCst) > 0
}
