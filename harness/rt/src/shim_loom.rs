//! loom backend of the facade.
//!
//! Everything that is not a synchronisation primitive is re-exported from real
//! `std`. The primitives below are *models of std* written on top of loom's
//! native objects (atomics, unbounded mpsc channels, `Notify`), because loom 0.7.2
//! either lacks them (`Barrier`, `sync_channel`, const `Mutex::new`,
//! `thread_local!{ const {..} }`) or models them too coarsely to be usable with
//! divan's pool (`park`/`unpark`, `Condvar`). See DESIGN.md §2.3.

pub use ::std::{
    alloc, any, borrow, boxed, cell, clone, cmp, collections, convert, default, fmt, hash, hint, iter,
    marker, mem, num, ops, option, panic, ptr, result, slice, str, string, time, vec,
};

pub use crate::__verif_thread_local as thread_local;

use crate::log::{self, Kind};

pub mod process {
    pub use ::std::process::{exit, id, Command};

    /// Marker text of the panic that stands in for `process::abort`.
    pub const ABORT_PANIC: &str = "divan_verif: process::abort called";

    /// `abort` must not kill the explorer: it panics with a marker instead.
    pub fn abort() -> ! {
        panic!("{}", ABORT_PANIC);
    }
}

pub mod sync {
    pub use ::std::sync::{Arc, LockResult, OnceLock, PoisonError, TryLockError, Weak};

    use super::{log, Kind};
    use ::std::cell::UnsafeCell;
    use ::std::sync::OnceLock as StdOnceLock;

    // ---------------------------------------------------------------- Mutex

    /// `std::sync::Mutex` with a `const fn new`; the loom mutex is created on
    /// first use, i.e. inside the running execution.
    pub struct Mutex<T> {
        init: UnsafeCell<Option<T>>,
        inner: StdOnceLock<loom::sync::Mutex<T>>,
    }

    unsafe impl<T: Send> Send for Mutex<T> {}
    unsafe impl<T: Send> Sync for Mutex<T> {}

    pub type MutexGuard<'a, T> = loom::sync::MutexGuard<'a, T>;

    impl<T> Mutex<T> {
        pub const fn new(value: T) -> Self {
            Self { init: UnsafeCell::new(Some(value)), inner: StdOnceLock::new() }
        }

        fn inner(&self) -> &loom::sync::Mutex<T> {
            self.inner.get_or_init(|| {
                // SAFETY: runs once; executions are single-OS-threaded.
                let value = unsafe { (*self.init.get()).take() }.expect("mutex value");
                loom::sync::Mutex::new(value)
            })
        }

        #[track_caller]
        pub fn lock(&self) -> LockResult<MutexGuard<'_, T>> {
            self.inner().lock()
        }
    }

    // -------------------------------------------------------------- Barrier

    /// Model of `std::sync::Barrier`. One AcqRel RMW per arrival hands out a
    /// ticket (generation = ticket / n). The last arrival of a generation
    /// publishes `generation + 1` (Release) and wakes that generation's waiters;
    /// a waiter blocks on a private `Notify` and re-checks the published
    /// generation (Acquire), which absorbs spurious wake-ups. Every arrival thus
    /// happens-before every departure of its generation, as with std's barrier.
    pub struct Barrier {
        n: usize,
        arrivals: loom::sync::atomic::AtomicUsize,
        generation: loom::sync::atomic::AtomicUsize,
        waiters: ::std::sync::Mutex<Vec<(usize, ::std::sync::Arc<loom::sync::Notify>)>>,
    }

    pub struct BarrierWaitResult(bool);

    impl BarrierWaitResult {
        pub fn is_leader(&self) -> bool {
            self.0
        }
    }

    impl Barrier {
        pub fn new(n: usize) -> Self {
            Self {
                n,
                arrivals: loom::sync::atomic::AtomicUsize::new(0),
                generation: loom::sync::atomic::AtomicUsize::new(0),
                waiters: ::std::sync::Mutex::new(Vec::new()),
            }
        }

        #[track_caller]
        pub fn wait(&self) -> BarrierWaitResult {
            use ::std::sync::atomic::Ordering::*;

            let id = self as *const Self as usize as u64;
            log::event(Kind::BarrierArrive, id, 0);

            if self.n <= 1 {
                log::event(Kind::BarrierLeave, id, 0);
                return BarrierWaitResult(true);
            }

            // The scheduler can only switch threads at loom operations, so the
            // bookkeeping that follows the RMW is atomic with it.
            let ticket = self.arrivals.fetch_add(1, AcqRel);
            let my_gen = ticket / self.n;
            let leader = ticket % self.n == self.n - 1;
            if leader {
                let mine: Vec<_> = {
                    let mut w = self.waiters.lock().unwrap();
                    let (mine, rest): (Vec<_>, Vec<_>) = w.drain(..).partition(|(g, _)| *g == my_gen);
                    *w = rest;
                    mine
                };
                self.generation.store(my_gen + 1, Release);
                for (_, other) in mine {
                    other.notify();
                }
            } else {
                let me = ::std::sync::Arc::new(loom::sync::Notify::new());
                self.waiters.lock().unwrap().push((my_gen, me.clone()));
                loop {
                    me.wait();
                    if self.generation.load(Acquire) > my_gen {
                        break;
                    }
                }
            }

            log::event(Kind::BarrierLeave, id, 0);
            BarrierWaitResult(leader)
        }
    }

    // --------------------------------------------------------------- atomic

    pub mod atomic {
        pub use ::std::sync::atomic::Ordering;

        /// `std::sync::atomic::AtomicPtr` with a `const fn new`: the loom object is created at the first
        /// access (inside the execution that uses it). Objects must not outlive one loom execution.
        pub struct AtomicPtr<T> {
            init: *mut T,
            inner: ::std::sync::OnceLock<loom::sync::atomic::AtomicPtr<T>>,
        }

        unsafe impl<T> Send for AtomicPtr<T> {}
        unsafe impl<T> Sync for AtomicPtr<T> {}

        impl<T> AtomicPtr<T> {
            pub const fn new(p: *mut T) -> Self {
                Self { init: p, inner: ::std::sync::OnceLock::new() }
            }

            fn inner(&self) -> &loom::sync::atomic::AtomicPtr<T> {
                self.inner.get_or_init(|| loom::sync::atomic::AtomicPtr::new(self.init))
            }

            #[track_caller]
            pub fn load(&self, order: Ordering) -> *mut T {
                self.inner().load(order)
            }

            #[track_caller]
            pub fn store(&self, p: *mut T, order: Ordering) {
                self.inner().store(p, order)
            }

            #[track_caller]
            pub fn compare_exchange_weak(&self, current: *mut T, new: *mut T, success: Ordering, failure: Ordering) -> Result<*mut T, *mut T> {
                self.inner().compare_exchange_weak(current, new, success, failure)
            }

            #[track_caller]
            pub fn compare_exchange(&self, current: *mut T, new: *mut T, success: Ordering, failure: Ordering) -> Result<*mut T, *mut T> {
                self.inner().compare_exchange(current, new, success, failure)
            }
        }

        use crate::live;

        /// loom `AtomicUsize` carrying a liveness id: any access after the
        /// object was dropped (the pool's task block lives on the caller's
        /// stack) is reported before loom is touched.
        pub struct AtomicUsize {
            id: u64,
            inner: loom::sync::atomic::AtomicUsize,
        }

        impl AtomicUsize {
            pub fn new(v: usize) -> Self {
                Self { id: live::register(), inner: loom::sync::atomic::AtomicUsize::new(v) }
            }

            #[inline]
            fn check(&self, what: &str) {
                let id = unsafe { ::std::ptr::read_volatile(&self.id) };
                live::check(id, what);
            }

            #[track_caller]
            pub fn load(&self, order: Ordering) -> usize {
                self.check("AtomicUsize::load");
                self.inner.load(order)
            }

            #[track_caller]
            pub fn store(&self, v: usize, order: Ordering) {
                self.check("AtomicUsize::store");
                self.inner.store(v, order)
            }

            #[track_caller]
            pub fn fetch_sub(&self, v: usize, order: Ordering) -> usize {
                self.check("AtomicUsize::fetch_sub");
                self.inner.fetch_sub(v, order)
            }

            #[track_caller]
            pub fn fetch_add(&self, v: usize, order: Ordering) -> usize {
                self.check("AtomicUsize::fetch_add");
                self.inner.fetch_add(v, order)
            }

            #[track_caller]
            pub fn swap(&self, v: usize, order: Ordering) -> usize {
                self.check("AtomicUsize::swap");
                self.inner.swap(v, order)
            }

            #[track_caller]
            pub fn compare_exchange(
                &self,
                current: usize,
                new: usize,
                success: Ordering,
                failure: Ordering,
            ) -> Result<usize, usize> {
                self.check("AtomicUsize::compare_exchange");
                self.inner.compare_exchange(current, new, success, failure)
            }
        }

        impl Drop for AtomicUsize {
            fn drop(&mut self) {
                live::kill(self.id);
                unsafe { ::std::ptr::write_volatile(&mut self.id, live::POISON) };
            }
        }
    }

    // ----------------------------------------------------------------- mpsc

    pub mod mpsc {
        pub use ::std::sync::mpsc::{RecvError, SendError};

        /// Rendezvous channel (`sync_channel(0)`): `send` returns only after the
        /// matching `recv` took the value; dropping the sender disconnects.
        pub struct SyncSender<T> {
            data: loom::sync::mpsc::Sender<Option<T>>,
            ack: loom::sync::mpsc::Receiver<()>,
        }

        pub struct Receiver<T> {
            data: loom::sync::mpsc::Receiver<Option<T>>,
            ack: loom::sync::mpsc::Sender<()>,
        }

        pub fn sync_channel<T>(bound: usize) -> (SyncSender<T>, Receiver<T>) {
            assert_eq!(bound, 0, "the facade models rendezvous channels only");
            let (data_tx, data_rx) = loom::sync::mpsc::channel();
            let (ack_tx, ack_rx) = loom::sync::mpsc::channel();
            (SyncSender { data: data_tx, ack: ack_rx }, Receiver { data: data_rx, ack: ack_tx })
        }

        impl<T> SyncSender<T> {
            #[track_caller]
            pub fn send(&self, value: T) -> Result<(), SendError<T>> {
                if let Err(SendError(v)) = self.data.send(Some(value)) {
                    return Err(SendError(v.expect("value")));
                }
                // Block until the receiver has taken the value.
                let _ = self.ack.recv();
                Ok(())
            }
        }

        impl<T> Drop for SyncSender<T> {
            fn drop(&mut self) {
                // Disconnect: loom channels have no hang-up notion.
                let _ = self.data.send(None);
            }
        }

        impl<T> Receiver<T> {
            #[track_caller]
            pub fn recv(&self) -> Result<T, RecvError> {
                match self.data.recv() {
                    Ok(Some(value)) => {
                        let _ = self.ack.send(());
                        Ok(value)
                    }
                    Ok(None) | Err(_) => Err(RecvError),
                }
            }
        }
    }
}

pub mod thread {
    pub use loom::thread::{yield_now, AccessError, JoinHandle, LocalKey, ThreadId};

    use super::{log, Kind};
    use crate::live;
    use ::std::io;
    use ::std::sync::Arc;

    struct Me {
        notify: Arc<loom::sync::Notify>,
        id: ThreadId,
    }

    loom::thread_local! {
        static ME: Me = Me {
            notify: Arc::new(loom::sync::Notify::new()),
            id: loom::thread::current().id(),
        };
    }

    /// Model of `std::thread::Thread` whose park token is a per-thread
    /// `loom::sync::Notify` (binary token, release/acquire, spurious wake-ups
    /// modelled by loom). Carries a liveness id like the facade atomics.
    pub struct Thread {
        live: u64,
        /// Conflict object: `clone` loads it, `drop` stores to it, so that the
        /// explorer orders a handle's destruction against every concurrent
        /// attempt to clone it (the pool's task block lives on the caller's
        /// stack and dies when `broadcast` returns).
        sched: Arc<loom::sync::atomic::AtomicUsize>,
        notify: Arc<loom::sync::Notify>,
        id: ThreadId,
    }

    impl Thread {
        fn new(notify: Arc<loom::sync::Notify>, id: ThreadId) -> Self {
            Thread { live: live::register(), sched: Arc::new(loom::sync::atomic::AtomicUsize::new(0)), notify, id }
        }

        #[inline]
        fn check(&self, what: &str) {
            let id = unsafe { ::std::ptr::read_volatile(&self.live) };
            live::check(id, what);
        }

        pub fn id(&self) -> ThreadId {
            self.check("Thread::id");
            self.id
        }

        #[track_caller]
        pub fn unpark(&self) {
            // Alive when we start, a scheduling point that conflicts with the handle's destruction (as in
            // `clone`), and still alive while it is being used: a handle that lives in another thread's
            // frame may be destroyed between the caller's last synchronisation and this call.
            let id = unsafe { ::std::ptr::read_volatile(&self.live) };
            live::check(id, "Thread::unpark");
            let (sched, notify) = (self.sched.clone(), self.notify.clone());
            sched.load(::std::sync::atomic::Ordering::Acquire);
            live::check(id, "Thread::unpark (the handle was destroyed while it was being used)");
            notify.notify();
        }
    }

    impl Clone for Thread {
        #[track_caller]
        fn clone(&self) -> Self {
            // Alive when we start ...
            let id = unsafe { ::std::ptr::read_volatile(&self.live) };
            live::check(id, "Thread::clone");
            // ... a scheduling point that conflicts with the handle's destruction ...
            let sched = self.sched.clone();
            sched.load(::std::sync::atomic::Ordering::Acquire);
            // ... and still alive while its fields are being read.
            live::check(id, "Thread::clone (the handle was destroyed while it was being cloned)");
            Thread::new(self.notify.clone(), self.id)
        }
    }

    impl Drop for Thread {
        fn drop(&mut self) {
            self.sched.store(1, ::std::sync::atomic::Ordering::Release);
            live::kill(self.live);
            unsafe { ::std::ptr::write_volatile(&mut self.live, live::POISON) };
        }
    }

    pub fn current() -> Thread {
        ME.with(|me| Thread::new(me.notify.clone(), me.id))
    }

    #[track_caller]
    pub fn park() {
        let notify = ME.with(|me| me.notify.clone());
        notify.wait();
    }

    /// Test helper: nothing to do (a pending token is harmless); kept so that
    /// conformance scripts read the same on both backends.
    pub fn park_consume_for_test() {}

    pub fn spawn<F, T>(f: F) -> JoinHandle<T>
    where
        F: FnOnce() -> T + Send + 'static,
        T: Send + 'static,
    {
        Builder::new().spawn(f).expect("spawn")
    }

    pub struct Builder {
        inner: loom::thread::Builder,
    }

    impl Builder {
        pub fn new() -> Self {
            Self { inner: loom::thread::Builder::new() }
        }

        pub fn name(self, name: String) -> Self {
            Self { inner: self.inner.name(name) }
        }

        #[track_caller]
        pub fn spawn<F, T>(self, f: F) -> io::Result<JoinHandle<T>>
        where
            F: FnOnce() -> T + Send + 'static,
            T: Send + 'static,
        {
            log::event(Kind::Spawn, 0, 0);
            self.inner.spawn(f)
        }
    }
}

/// `thread_local!` accepting the `= const { … }` form (loom's macro does not).
#[macro_export]
#[doc(hidden)]
macro_rules! __verif_thread_local {
    () => {};
    ($(#[$attr:meta])* $vis:vis static $name:ident: $t:ty = const { $init:expr }; $($rest:tt)*) => {
        $(#[$attr])* $vis static $name: $crate::shim::thread::LocalKey<$t> = $crate::shim::thread::LocalKey {
            init: (|| { $init }) as fn() -> $t,
            _p: ::std::marker::PhantomData,
        };
        $crate::__verif_thread_local!($($rest)*);
    };
    ($(#[$attr:meta])* $vis:vis static $name:ident: $t:ty = const { $init:expr }) => {
        $crate::__verif_thread_local!($(#[$attr])* $vis static $name: $t = const { $init };);
    };
    ($(#[$attr:meta])* $vis:vis static $name:ident: $t:ty = $init:expr; $($rest:tt)*) => {
        $(#[$attr])* $vis static $name: $crate::shim::thread::LocalKey<$t> = $crate::shim::thread::LocalKey {
            init: (|| { $init }) as fn() -> $t,
            _p: ::std::marker::PhantomData,
        };
        $crate::__verif_thread_local!($($rest)*);
    };
    ($(#[$attr:meta])* $vis:vis static $name:ident: $t:ty = $init:expr) => {
        $crate::__verif_thread_local!($(#[$attr])* $vis static $name: $t = $init;);
    };
}
