//! Runtime support for the divan verification hooks (`--cfg divan_verif`).
//!
//! * `shim`  – the `std` facade that `pool.rs`, `benchmark/mod.rs` and `alloc.rs`
//!             resolve `std::…` through. With the default (std) backend it is a plain
//!             re-export of `std`; with the `loom` feature the synchronisation
//!             primitives are loom-backed models.
//! * `clock` – scripted virtual timestamp counter + forced precision / overheads.
//! * `log`   – global event log used by the trace-checking oracles.
//! * `live`  – liveness registry (use-after-return detection for the pool's
//!             stack-pinned task block; loom backend only).
//!
//! All state here is process-global and lives in plain std primitives that loom
//! does not see, so it adds no scheduling points. One loom execution runs on one
//! OS thread (coroutines), and engine S is single-threaded, so the state is
//! race-free in every controlled setting.

pub mod clock;
pub mod log;

#[cfg(not(feature = "loom"))]
#[path = "shim_std.rs"]
pub mod shim;

#[cfg(feature = "loom")]
#[path = "shim_loom.rs"]
pub mod shim;

#[cfg(feature = "loom")]
pub mod live;

/// `true` when the loom backend is compiled in.
pub const LOOM: bool = cfg!(feature = "loom");
