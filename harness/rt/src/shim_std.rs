//! std backend of the facade: a transparent re-export of `std`.
//!
//! `#[cfg(divan_verif)] use ::divan_verif_rt::shim as std;` in a divan module then
//! changes nothing except that the module's `std::…` paths travel through here.

pub use ::std::*;

// Macros that the hooked modules import by name.
pub use ::std::thread_local;
