//! Scripted virtual timestamp counter and forced timer characteristics.
//!
//! Off by default: every hook then falls through to the real code.

use std::num::NonZeroU64;
use std::sync::atomic::{AtomicBool, AtomicU64, Ordering::SeqCst};
use std::sync::Mutex;

use crate::log::{self, Kind};

#[derive(Clone, Copy, PartialEq, Eq, Debug)]
pub enum Edge {
    Start,
    End,
}

static ENABLED: AtomicBool = AtomicBool::new(false);
static NOW: AtomicU64 = AtomicU64::new(0);
static READ_COST: AtomicU64 = AtomicU64::new(0);
static FREQ: AtomicU64 = AtomicU64::new(1_000_000_000_000);
static READS: AtomicU64 = AtomicU64::new(0);
static HORIZON: AtomicU64 = AtomicU64::new(u64::MAX);
/// The value returned by a read is the internal time rounded down to a multiple of this.
static QUANTUM: AtomicU64 = AtomicU64::new(1);

/// Forced `Timer::precision()` in picoseconds (u128 split in two).
static FORCED: Mutex<Forced> = Mutex::new(Forced { precision: None, overheads: None });

#[derive(Clone, Copy)]
struct Forced {
    precision: Option<u128>,
    /// sample_loop, tally_alloc, tally_dealloc, tally_realloc (picoseconds).
    overheads: Option<[u128; 4]>,
}

/// Number of End reads per thread index since `enable` (= completed timed sections).
static ENDS: Mutex<Vec<u64>> = Mutex::new(Vec::new());

/// Marker carried by the panic raised when the read budget is exhausted.
pub const HORIZON_PANIC: &str = "divan_verif: clock horizon exceeded";

/// Turns the virtual clock on. `frequency` ticks per second; every read
/// advances the clock by `read_cost` ticks *after* returning the current value.
pub fn enable(frequency: u64, start: u64, read_cost: u64, horizon_reads: u64) {
    assert!(frequency != 0);
    FREQ.store(frequency, SeqCst);
    NOW.store(start, SeqCst);
    READ_COST.store(read_cost, SeqCst);
    READS.store(0, SeqCst);
    HORIZON.store(horizon_reads, SeqCst);
    QUANTUM.store(1, SeqCst);
    HORIZON_HIT.store(false, SeqCst);
    COST_SCRIPT.lock().unwrap_or_else(|e| e.into_inner()).clear();
    {
        // Reads must not allocate (they happen inside timed sections whose allocations are
        // tallied): reserve the per-thread tables up front.
        let mut ends = ENDS.lock().unwrap_or_else(|e| e.into_inner());
        ends.clear();
        ends.reserve(256);
        log::reserve_thread_ids(256);
    }
    ENABLED.store(true, SeqCst);
}

pub fn disable() {
    ENABLED.store(false, SeqCst);
    let mut f = FORCED.lock().unwrap_or_else(|e| e.into_inner());
    f.precision = None;
    f.overheads = None;
}

static HORIZON_HIT: AtomicBool = AtomicBool::new(false);

/// Optional schedule of read costs: `(reads, cost)` phases in order, the last one repeating for ever
/// (a clock whose reads are slow at first: cold caches, frequency scaling). Empty = `READ_COST`.
static COST_SCRIPT: Mutex<Vec<(u64, u64)>> = Mutex::new(Vec::new());

/// Sets the read-cost schedule for the current `enable` (cleared by the next one).
pub fn set_read_cost_script(phases: &[(u64, u64)]) {
    let mut s = COST_SCRIPT.lock().unwrap_or_else(|e| e.into_inner());
    s.clear();
    s.extend_from_slice(phases);
}

fn cost_of_read(n: u64) -> u64 {
    let s = COST_SCRIPT.lock().unwrap_or_else(|e| e.into_inner());
    if s.is_empty() {
        return READ_COST.load(SeqCst);
    }
    let mut first = 0u64;
    for (reads, cost) in s.iter() {
        if n < first.saturating_add(*reads) {
            return *cost;
        }
        first = first.saturating_add(*reads);
    }
    s.last().unwrap().1
}

/// Aborts the current run because its budget is exhausted. The panic may be
/// caught and re-labelled on its way up, so the fact is also kept in a flag.
pub fn raise_horizon() -> ! {
    HORIZON_HIT.store(true, SeqCst);
    panic!("{}", HORIZON_PANIC);
}

/// Whether the budget was exhausted since the last `enable`.
pub fn horizon_hit() -> bool {
    HORIZON_HIT.load(SeqCst)
}

pub fn is_enabled() -> bool {
    ENABLED.load(SeqCst)
}

/// Called by the hook in `TscTimestamp::{start,end}`.
#[inline]
pub fn read(edge: Edge) -> Option<u64> {
    if !ENABLED.load(SeqCst) {
        return None;
    }
    let n = READS.fetch_add(1, SeqCst);
    if n >= HORIZON.load(SeqCst) {
        raise_horizon();
    }
    let raw = NOW.fetch_add(cost_of_read(n), SeqCst);
    let q = QUANTUM.load(SeqCst).max(1);
    let v = raw / q * q;
    if edge == Edge::End {
        let t = log::thread_index() as usize;
        let mut ends = ENDS.lock().unwrap_or_else(|e| e.into_inner());
        if ends.len() <= t {
            ends.resize(t + 1, 0);
        }
        ends[t] += 1;
    }
    log::event(
        match edge {
            Edge::Start => Kind::TsStart,
            Edge::End => Kind::TsEnd,
        },
        v,
        0,
    );
    Some(v)
}

/// Called by the hook in `TscTimestamp::frequency`.
#[inline]
pub fn forced_frequency() -> Option<NonZeroU64> {
    if !ENABLED.load(SeqCst) {
        return None;
    }
    NonZeroU64::new(FREQ.load(SeqCst))
}

/// Makes reads return the internal time rounded down to a multiple of `q` ticks
/// (a clock that advances in uniform steps of `q`).
pub fn set_quantum(q: u64) {
    QUANTUM.store(q.max(1), SeqCst);
}

/// Completed timed sections (End reads) of the current thread: its round index.
pub fn round_of_current_thread() -> u64 {
    let t = log::thread_index() as usize;
    ENDS.lock().unwrap_or_else(|e| e.into_inner()).get(t).copied().unwrap_or(0)
}

pub fn advance(ticks: u64) {
    NOW.fetch_add(ticks, SeqCst);
}

pub fn now() -> u64 {
    NOW.load(SeqCst)
}

pub fn reads() -> u64 {
    READS.load(SeqCst)
}

pub fn force_precision(picos: Option<u128>) {
    FORCED.lock().unwrap_or_else(|e| e.into_inner()).precision = picos;
}

pub fn force_overheads(picos: Option<[u128; 4]>) {
    FORCED.lock().unwrap_or_else(|e| e.into_inner()).overheads = picos;
}

/// Called by the hook in `Timer::precision`.
pub fn forced_precision() -> Option<u128> {
    if !ENABLED.load(SeqCst) {
        return None;
    }
    FORCED.lock().unwrap_or_else(|e| e.into_inner()).precision
}

/// Called by the hook in `Timer::bench_overheads`.
pub fn forced_overheads() -> Option<[u128; 4]> {
    if !ENABLED.load(SeqCst) {
        return None;
    }
    FORCED.lock().unwrap_or_else(|e| e.into_inner()).overheads
}

/// Process-wide set-up from the environment, used by black-box (engine Z) runs:
/// `DIVAN_VERIF_CLOCK=<frequency>,<read_cost>,<precision_ps>` turns the clock on
/// with zero overheads.
pub fn enable_from_env() -> bool {
    let Ok(spec) = std::env::var("DIVAN_VERIF_CLOCK") else {
        return false;
    };
    let parts: Vec<u128> = spec.split(',').map(|p| p.trim().parse().expect("DIVAN_VERIF_CLOCK")).collect();
    assert!(parts.len() == 3, "DIVAN_VERIF_CLOCK=<freq>,<read_cost>,<precision_ps>");
    enable(parts[0] as u64, 0, parts[1] as u64, u64::MAX);
    force_precision(Some(parts[2]));
    force_overheads(Some([0; 4]));
    true
}
