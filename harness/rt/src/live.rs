//! Liveness registry: facade objects that live inside the pool's stack-pinned
//! task block carry an id; using one after it was dropped is reported as a
//! use-after-return *before* the underlying loom object is touched.

use std::collections::HashSet;
use std::sync::atomic::{AtomicU64, Ordering::SeqCst};
use std::sync::Mutex;

/// Written over the id field of a dropped object.
pub const POISON: u64 = 0xDEAD_DEAD_DEAD_DEAD;

/// Marker text carried by the panic.
pub const UAR_PANIC: &str = "divan_verif: use-after-return";

static NEXT: AtomicU64 = AtomicU64::new(1);
static LIVE: Mutex<Option<HashSet<u64>>> = Mutex::new(None);

pub fn reset() {
    *LIVE.lock().unwrap_or_else(|e| e.into_inner()) = Some(HashSet::new());
}

pub fn register() -> u64 {
    // Spread ids over the 64-bit space so that stale stack bytes do not look live.
    let n = NEXT.fetch_add(1, SeqCst);
    let id = n.wrapping_mul(0x9E37_79B9_7F4A_7C15) ^ 0xA5A5_5A5A_C3C3_3C3C;
    LIVE.lock().unwrap_or_else(|e| e.into_inner()).get_or_insert_with(HashSet::new).insert(id);
    id
}

pub fn kill(id: u64) {
    if let Some(set) = LIVE.lock().unwrap_or_else(|e| e.into_inner()).as_mut() {
        set.remove(&id);
    }
}

pub fn is_live(id: u64) -> bool {
    LIVE.lock().unwrap_or_else(|e| e.into_inner()).as_ref().map_or(false, |s| s.contains(&id))
}

#[inline]
pub fn check(id: u64, what: &str) {
    if !is_live(id) {
        panic!("{}: {} on a dropped object (id {:#x})", UAR_PANIC, what, id);
    }
}
