//! Engine L: loom exploration of the real thread pool, the real multi-threaded
//! sample loop and the real per-thread allocation tally.
//!
//!   mc-loom --scenario '<json>' --side <file>
//!
//! One process explores one scenario (loom may abort the process after it
//! reports a failure). Verdicts: exit 0 + `RESULT {..}` = every execution passed;
//! otherwise the first unexpected panic message is in the side file and the
//! driver classifies it (oracle:…, deadlock, causality violation,
//! use-after-return, abort).

#[path = "../../common/loopdrv.rs"]
mod loopdrv;
#[path = "../../common/oracle.rs"]
mod oracle;

use divan::verif::Pool;
use divan_verif_rt::{live, log};
use serde::Deserialize;
use serde_json::json;
use std::collections::HashSet;
use std::sync::atomic::{AtomicBool, AtomicU64, AtomicUsize, Ordering::SeqCst};
use std::sync::{Arc, Mutex};

static ITERATIONS: AtomicU64 = AtomicU64::new(0);
static TRANSITIONS: AtomicU64 = AtomicU64::new(0);
static OUTCOMES: Mutex<Option<HashSet<u64>>> = Mutex::new(None);
static SAMPLE: Mutex<Option<serde_json::Value>> = Mutex::new(None);

fn outcome(h: u64) {
    OUTCOMES.lock().unwrap().get_or_insert_with(HashSet::new).insert(h);
}

fn hash_of(s: &str) -> u64 {
    use std::hash::{Hash, Hasher};
    let mut h = std::collections::hash_map::DefaultHasher::new();
    s.hash(&mut h);
    h.finish()
}

#[derive(Deserialize, Clone, Debug)]
struct Broadcast {
    n: usize,
    #[serde(default)]
    panics: Vec<usize>,
    #[serde(default)]
    extend: bool,
    /// The panic of index 0 carries a payload whose destructor panics itself.
    #[serde(default)]
    bomb: bool,
    /// 0: issued by the main thread; 1: issued by a helper thread spawned for it.
    #[serde(default)]
    caller: usize,
}

/// Panic payload whose destructor panics (unless the thread is already unwinding).
struct Bomb;
impl Drop for Bomb {
    fn drop(&mut self) {
        if !std::thread::panicking() {
            panic!("{} (destructor of a panic payload)", loopdrv::INJECTED_PANIC);
        }
    }
}

#[derive(Deserialize, Clone, Debug)]
#[serde(tag = "kind")]
enum Scenario {
    #[serde(rename = "pool")]
    Pool { history: Vec<Broadcast>, pb: Option<usize>, prop: Option<String> },
    #[serde(rename = "loop")]
    Loop { case: loopdrv::LoopCase, pb: Option<usize>, prop: Option<String> },
    #[serde(rename = "tally")]
    Tally { threads: usize, ops: Vec<Vec<u8>>, pb: Option<usize> },
    #[serde(rename = "shim")]
    Shim { script: String, pb: Option<usize> },
    /// Concurrent registration: `pushes[t]` nodes are pushed onto one entry list by thread t.
    #[serde(rename = "entrylist")]
    EntryList { pushes: Vec<usize>, pb: Option<usize> },
}

struct SyncCell<T>(loom::cell::UnsafeCell<T>);
unsafe impl<T> Sync for SyncCell<T> {}
unsafe impl<T> Send for SyncCell<T> {}

struct AliveGuard(Arc<AtomicBool>);
impl Drop for AliveGuard {
    fn drop(&mut self) {
        self.0.store(false, SeqCst);
    }
}

struct DoneGuard<'a>(&'a AtomicBool);
impl Drop for DoneGuard<'_> {
    fn drop(&mut self) {
        self.0.store(true, SeqCst);
    }
}

static C06_ON: AtomicBool = AtomicBool::new(true);

macro_rules! oracle {
    ($prop:expr, $class:expr, $($t:tt)+) => {
        if $prop != "C06" || C06_ON.load(SeqCst) {
            panic!("oracle:{}:{}:{}", $prop, $class, format!($($t)+))
        }
    };
}

/// One broadcast on `pool`, issued by the current thread, with all per-broadcast
/// oracles. Returns a shape string (which thread ran which index).
fn one_broadcast(pool: &Pool, bi: usize, b: &Broadcast, max_n_before: usize, results: &mut Vec<Option<usize>>) -> String {
    let n = b.n;
    let me = log::thread_index() as usize;
    let cells: Vec<SyncCell<usize>> = (0..=n).map(|_| SyncCell(loom::cell::UnsafeCell::new(0))).collect();
    let calls: Vec<AtomicUsize> = (0..=n).map(|_| AtomicUsize::new(0)).collect();
    let threads: Vec<AtomicUsize> = (0..=n).map(|_| AtomicUsize::new(usize::MAX)).collect();
    let done: Vec<AtomicBool> = (0..=n).map(|_| AtomicBool::new(false)).collect();
    let alive = Arc::new(AtomicBool::new(true));
    let guard = AliveGuard(alive.clone());
    let out_of_range = AtomicUsize::new(usize::MAX);

    let body = |index: usize| -> usize {
        // Keeps the guard owned by the closure: it dies with the task block.
        let _own = &guard;
        if !alive.load(SeqCst) {
            oracle!("C06", "call-after-return", "broadcast {bi} (n={n}): call for index {index} ran after the task was dropped");
        }
        if index > n {
            out_of_range.store(index, SeqCst);
            return 0;
        }
        let _done = DoneGuard(&done[index]);
        calls[index].fetch_add(1, SeqCst);
        threads[index].store(log::thread_index() as usize, SeqCst);
        cells[index].0.with_mut(|p| unsafe { *p = 1000 * (bi + 1) + index });
        if b.panics.contains(&index) {
            if b.bomb && index == 0 {
                std::panic::panic_any(Bomb);
            }
            panic!("{}", loopdrv::INJECTED_PANIC);
        }
        10 * index + bi
    };

    // `results` is reused by consecutive par_extend broadcasts of one caller (cleared, capacity kept),
    // the way the sampling loop reuses its vector of raw samples from round to round.
    results.clear();
    // A payload whose destructor panics makes `broadcast` itself unwind (after
    // it has waited for the workers); the oracles below apply all the same.
    let unwound = match std::panic::catch_unwind(std::panic::AssertUnwindSafe(|| {
        if b.extend {
            results.push(Some(424242)); // pre-existing element must be preserved
            pool.par_extend(&mut *results, n, &body);
        } else {
            pool.broadcast(n, |i| {
                body(i);
            });
        }
    })) {
        Ok(()) => false,
        Err(payload) => {
            // (the payload may be the Bomb itself when the pool let the call's panic through uncaught:
            // its destructor must not run here)
            std::mem::forget(payload);
            true
        }
    };
    if unwound != (b.bomb && b.panics.contains(&0)) {
        oracle!("C06", "unexpected-unwind", "broadcast {bi} (n={n}): broadcast {} although panicking subset is {:?} (bomb payload: {})", if unwound { "unwound" } else { "returned normally" }, b.panics, b.bomb);
    }
    // ---- the caller has resumed
    if out_of_range.load(SeqCst) != usize::MAX {
        oracle!("C06", "index-range", "broadcast {bi} (n={n}): task called with index {}", out_of_range.load(SeqCst));
    }
    let mut seen_threads = HashSet::new();
    for i in 0..=n {
        let c = calls[i].load(SeqCst);
        if c != 1 {
            oracle!("C06", "call-count", "broadcast {bi} (n={n}): index {i} was called {c} times when broadcast returned");
        }
        if !done[i].load(SeqCst) {
            oracle!("C06", "returned-early", "broadcast {bi} (n={n}): broadcast returned while the call for index {i} was still running");
        }
        let t = threads[i].load(SeqCst);
        if (i == 0) != (t == me) {
            oracle!("C06", "thread-placement", "broadcast {bi} (n={n}) issued by thread {me}: index {i} ran on thread {t} (index 0 must run on the caller, others on pool threads)");
        }
        if !seen_threads.insert(t) {
            oracle!("C06", "thread-distinct", "broadcast {bi} (n={n}): two indices ran on thread {t}");
        }
        // Reading what the call wrote: loom reports a missing happens-before edge here.
        let v = cells[i].0.with(|p| unsafe { *p });
        if v != 1000 * (bi + 1) + i {
            oracle!("C06", "visibility", "broadcast {bi} (n={n}): caller read {v} from the cell written by index {i}");
        }
    }
    if b.extend {
        if results.len() != n + 2 || results[0] != Some(424242) {
            oracle!("C06", "extend-shape", "par_extend {bi} (n={n}): vector is {results:?}");
        }
        for i in 0..=n {
            let want = if b.panics.contains(&i) { None } else { Some(10 * i + bi) };
            if results[i + 1] != want {
                oracle!("C06", "extend-result", "par_extend {bi} (n={n}): slot {i} holds {:?}, expected {want:?} (panicking subset {:?})", results[i + 1], b.panics);
            }
        }
    }
    let max_n = max_n_before.max(n);
    let spawned = log::snapshot().iter().filter(|e| e.kind == log::Kind::Spawn).count();
    if spawned != max_n || pool.aux_thread_count() != max_n {
        oracle!("C06", "worker-count", "after broadcast {bi} (n={n}): {spawned} workers were spawned and the pool holds {} handles, expected max(n_1..n_j) = {max_n}", pool.aux_thread_count());
    }
    let shape = format!("{me}:{:?};", (0..=n).map(|i| threads[i].load(SeqCst)).collect::<Vec<_>>());
    drop(guard);
    shape
}

fn pool_scenario(history: &[Broadcast], prop: Option<&str>) {
    // With prop = C07 only the scheduler's terminal-state analysis (deadlock,
    // leaked worker) decides; the C06 oracles stay silent.
    let c06 = prop != Some("C07");
    C06_ON.store(c06, SeqCst);
    log::reset();
    live::reset();
    let pool = Arc::new(Pool::new());
    let mut max_n = 0usize;
    let mut shape = String::new();
    let mut results: Vec<Option<usize>> = Vec::new();

    for (bi, b) in history.iter().enumerate() {
        if b.caller == 0 {
            shape.push_str(&one_broadcast(&pool, bi, b, max_n, &mut results));
        } else {
            // The broadcast is issued by another thread than the earlier ones
            // (the pool is shared; calls are sequential).
            let (pool2, b2) = (pool.clone(), b.clone());
            let h = loom::thread::spawn(move || one_broadcast(&pool2, bi, &b2, max_n, &mut Vec::new()));
            match h.join() {
                Ok(s) => shape.push_str(&s),
                Err(_) => panic!("machinery: the helper caller thread panicked"),
            }
        }
        max_n = max_n.max(b.n);
    }
    // Dropping the pool must make every worker exit: loom requires all threads
    // to terminate and reports a deadlock otherwise.
    drop(pool);
    let n_events = log::snapshot().len() as u64;
    TRANSITIONS.fetch_add(n_events + history.iter().map(|b| b.n as u64 * 6 + 4).sum::<u64>(), SeqCst);
    outcome(hash_of(&shape));
}

fn loop_scenario(case: &loopdrv::LoopCase, prop: Option<&str>) {
    live::reset();
    let out = loopdrv::run_case(case);
    TRANSITIONS.fetch_add(out.events.len() as u64, SeqCst);
    if out.horizon {
        panic!("machinery: clock horizon exceeded under loom");
    }
    let mut findings = oracle::check_loop(case, &out);
    findings.extend(oracle::check_time(case, &out));
    for f in findings {
        if prop.map_or(true, |p| p == f.prop) {
            oracle!(f.prop, f.class, "{}", f.text);
        }
    }
    let shape: String = out
        .events
        .iter()
        .filter(|e| !matches!(e.kind, log::Kind::BarrierArrive | log::Kind::BarrierLeave))
        .map(|e| format!("{}{}", e.thread, e.kind as u8))
        .collect();
    outcome(hash_of(&shape));
    let mut s = SAMPLE.lock().unwrap();
    if s.is_none() {
        *s = Some(json!({"first_execution_events": out.events.iter().map(|e| format!("t{}:{:?}({})", e.thread, e.kind, e.a)).collect::<Vec<_>>() }));
    }
}

/// Cross-thread clause of C10: every thread drives the real profiler with its
/// own script; afterwards its thread-local tally equals its own script.
fn tally_scenario(threads: usize, ops: &[Vec<u8>]) {
    use loopdrv::{apply_op, reference_tally, Op};
    log::reset();
    fn decode(code: u8, t: usize) -> Op {
        let z = 8 + 100 * t as u64;
        match code {
            0 => Op::Alloc(z),
            1 => Op::Dealloc(z / 2),
            2 => Op::Realloc(z, 3 * z),
            3 => Op::Realloc(z, 1),
            _ => Op::AllocZeroed(z + 1),
        }
    }
    let results: Arc<Mutex<Vec<Option<divan::verif::TallyMirror>>>> = Arc::new(Mutex::new(vec![None; threads]));
    let make_work = |t: usize| {
        let script: Vec<Op> = ops[t].iter().map(|&c| decode(c, t)).collect();
        let results = results.clone();
        move || {
            divan::verif::tally_clear();
            for op in &script {
                apply_op(*op);
                loom::thread::yield_now();
            }
            let got = divan::verif::tally_get();
            results.lock().unwrap()[t] = got;
        }
    };
    let handles: Vec<_> = (1..threads).map(|t| loom::thread::spawn(make_work(t))).collect();
    make_work(0)();
    for h in handles {
        h.join().unwrap();
    }
    let got = results.lock().unwrap().clone();
    for t in 0..threads {
        let want = reference_tally(ops[t].iter().map(|&c| decode(c, t)));
        if got[t] != Some(want) {
            oracle!("C10", "cross-thread", "thread {t} performed {:?} but its tally reads {:?} (expected {want:?})", ops[t], got[t]);
        }
    }
    TRANSITIONS.fetch_add(ops.iter().map(|o| o.len() as u64 + 2).sum(), SeqCst);
    outcome(0);
}

/// C12: every node pushed onto the real `EntryList` (the lock-free list behind `BENCH_ENTRIES` /
/// `GROUP_ENTRIES`) by any thread is found exactly once afterwards, whatever the interleaving.
fn entrylist_scenario(pushes: &[usize]) {
    use divan::__private::EntryList;
    static IDS: [usize; 16] = [0, 1, 2, 3, 4, 5, 6, 7, 8, 9, 10, 11, 12, 13, 14, 15];
    let root: &'static EntryList<usize> = Box::leak(Box::new(divan::verif::entry_list_root::<usize>()));
    let mut next = 0usize;
    let mut work: Vec<Vec<&'static EntryList<usize>>> = Vec::new();
    for &n in pushes {
        let mut mine = Vec::new();
        for _ in 0..n {
            mine.push(&*Box::leak(Box::new(EntryList::new(&IDS[next]))));
            next += 1;
        }
        work.push(mine);
    }
    // The facade creates a node's loom atomic at its first access; loom requires the creation to happen
    // before every other access, so every node is touched here, before any thread is spawned.
    let _ = root.iter().count();
    for node in work.iter().flatten() {
        let _ = node.iter().count();
    }
    let mut handles = Vec::new();
    let first = work.remove(0);
    for mine in work {
        handles.push(loom::thread::spawn(move || {
            for node in mine {
                root.push(node);
            }
        }));
    }
    for node in first {
        root.push(node);
    }
    for h in handles {
        h.join().unwrap();
    }
    let mut seen: Vec<usize> = root.iter().copied().collect();
    let order = seen.clone();
    seen.sort_unstable();
    let want: Vec<usize> = (0..next).collect();
    if seen != want {
        oracle!("C12", "registration-lost-or-doubled", "nodes pushed by {} threads ({pushes:?} each): the list yields {order:?}, every one of {want:?} must be found exactly once", pushes.len());
    }
    TRANSITIONS.fetch_add(next as u64 * 3, SeqCst);
    outcome(hash_of(&format!("{order:?}")));
}

mod shimtest;

fn main() {
    let mut scenario = None;
    let mut side = None;
    let mut args = std::env::args().skip(1);
    while let Some(a) = args.next() {
        match a.as_str() {
            "--scenario" => scenario = args.next(),
            "--side" => side = args.next(),
            _ => {}
        }
    }
    let scenario_text = scenario.expect("--scenario <json>");
    let scenario: Scenario = serde_json::from_str(&scenario_text).expect("scenario json");
    let side = side.unwrap_or_else(|| "/dev/null".to_owned());

    // Record the first unexpected panic message; expected ones (injected panic
    // points and their translation by divan) are ignored.
    let first = Arc::new(AtomicBool::new(false));
    let oracle_seen = Arc::new(AtomicBool::new(false));
    {
        let side = side.clone();
        let first = first.clone();
        let oracle_seen = oracle_seen.clone();
        std::panic::set_hook(Box::new(move |info| {
            let msg = if let Some(s) = info.payload().downcast_ref::<&str>() {
                (*s).to_owned()
            } else if let Some(s) = info.payload().downcast_ref::<String>() {
                s.clone()
            } else {
                "<non-string panic>".to_owned()
            };
            if std::env::var_os("MC_LOOM_TRACE").is_some() {
                eprintln!("[panic] {msg} @{:?} quiet={}", info.location().map(|l| format!("{}:{}", l.file(), l.line())), log::in_quiet_section());
            }
            if info.payload().is::<Bomb>() || msg.contains(loopdrv::INJECTED_PANIC) || msg.starts_with("Divan benchmarking thread") || log::in_quiet_section() {
                return;
            }
            // The first unexpected panic is the record; an oracle verdict that follows it
            // (e.g. after an engine artefact such as a poisoned explorer mutex made the run
            // end with a different panic than expected) replaces it, being the precise one.
            let is_oracle = msg.starts_with("oracle:");
            let had_first = first.swap(true, SeqCst);
            if !had_first || (is_oracle && !oracle_seen.swap(true, SeqCst)) {
                if is_oracle {
                    oracle_seen.store(true, SeqCst);
                }
                let loc = info.location().map(|l| format!(" @{}:{}", l.file(), l.line())).unwrap_or_default();
                let _ = std::fs::write(&side, format!("{msg}{loc}\niteration={}\n", ITERATIONS.load(SeqCst)));
            }
        }));
    }

    let pb = match &scenario {
        Scenario::Pool { pb, .. } | Scenario::Loop { pb, .. } | Scenario::Tally { pb, .. } | Scenario::Shim { pb, .. } | Scenario::EntryList { pb, .. } => *pb,
    };
    let mut builder = loom::model::Builder::new();
    builder.preemption_bound = pb;
    builder.max_branches = 100_000;
    builder.max_permutations = None;
    builder.max_duration = None;
    builder.checkpoint_file = None;
    builder.log = false;
    builder.location = false;

    let start = std::time::Instant::now();
    let sc = scenario.clone();
    builder.check(move || {
        ITERATIONS.fetch_add(1, SeqCst);
        match &sc {
            Scenario::Pool { history, prop, .. } => pool_scenario(history, prop.as_deref()),
            Scenario::Loop { case, prop, .. } => loop_scenario(case, prop.as_deref()),
            Scenario::Tally { threads, ops, .. } => tally_scenario(*threads, ops),
            Scenario::Shim { script, .. } => shimtest::run(script),
            Scenario::EntryList { pushes, .. } => entrylist_scenario(pushes),
        }
    });

    let outcomes = OUTCOMES.lock().unwrap().as_ref().map_or(0, |s| s.len());
    let extra = shimtest::summary();
    println!(
        "RESULT {}",
        json!({
            "iterations": ITERATIONS.load(SeqCst),
            "transitions": TRANSITIONS.load(SeqCst),
            "distinct_outcomes": outcomes,
            "preemption_bound": pb,
            "sample": SAMPLE.lock().unwrap().clone(),
            "shim": extra,
            "wall_s": start.elapsed().as_secs_f64(),
        })
    );
}
