fn main() { println!("{}", divan::verif::fmt_duration(1234567)); }
