//! Conformance scripts for the facade primitives (harness/rt/src/shim_loom.rs).
//! Each script is explored exhaustively; the set of observable outcomes and the
//! blocking facts asserted inside are the model's contract, which
//! `mc-seq/src/bin/shimstd.rs` replays on real std threads.

use divan_verif_rt::shim::sync::atomic::{AtomicUsize, Ordering};
use divan_verif_rt::shim::sync::{mpsc, Barrier, Mutex};
use divan_verif_rt::shim::thread;
use std::collections::BTreeSet;
use std::sync::atomic::{AtomicBool, AtomicUsize as StdAtomicUsize, Ordering::SeqCst};
use std::sync::{Arc, Mutex as StdMutex};

static OUTCOMES: StdMutex<BTreeSet<String>> = StdMutex::new(BTreeSet::new());

fn record(s: String) {
    OUTCOMES.lock().unwrap().insert(s);
}

pub fn summary() -> serde_json::Value {
    serde_json::json!(OUTCOMES.lock().unwrap().iter().cloned().collect::<Vec<_>>())
}

pub const SCRIPTS: &[&str] = &[
    "rendezvous_value",
    "rendezvous_blocks",
    "rendezvous_disconnect",
    "rendezvous_two",
    "barrier_2x2",
    "barrier_3",
    "park_token_first",
    "park_flag_loop",
    "park_stale_token",
    "mutex_lazy",
];

pub fn run(script: &str) {
    divan_verif_rt::live::reset();
    divan_verif_rt::log::reset();
    match script {
        "rendezvous_value" => {
            let (tx, rx) = mpsc::sync_channel::<u32>(0);
            let h = loom::thread::spawn(move || {
                let v = rx.recv().unwrap();
                // drain until the sender hangs up (as a pool worker does)
                assert!(rx.recv().is_err(), "oracle:SHIM:rendezvous:second value");
                v
            });
            tx.send(7).unwrap();
            drop(tx);
            let v = h.join().unwrap();
            assert_eq!(v, 7, "oracle:SHIM:rendezvous:value");
            record(format!("rendezvous_value:{v}"));
        }
        "rendezvous_blocks" => {
            // Just before `recv` is called, the matching `send` cannot have returned.
            let (tx, rx) = mpsc::sync_channel::<u32>(0);
            // a loom atomic, so that the explorer orders the load against the store
            let sent = Arc::new(loom::sync::atomic::AtomicBool::new(false));
            let s2 = sent.clone();
            let h = loom::thread::spawn(move || {
                let early = s2.load(SeqCst);
                let v = rx.recv().unwrap();
                assert!(rx.recv().is_err(), "oracle:SHIM:rendezvous:second value");
                (early, v)
            });
            tx.send(1).unwrap();
            sent.store(true, SeqCst);
            drop(tx);
            let (early, v) = h.join().unwrap();
            assert!(!early, "oracle:SHIM:rendezvous:send returned before recv was called");
            record(format!("rendezvous_blocks:{early}:{v}"));
        }
        "rendezvous_disconnect" => {
            let (tx, rx) = mpsc::sync_channel::<u32>(0);
            let h = loom::thread::spawn(move || {
                let a = rx.recv().ok();
                let b = rx.recv().ok();
                (a, b)
            });
            tx.send(3).unwrap();
            drop(tx);
            let (a, b) = h.join().unwrap();
            assert_eq!((a, b), (Some(3), None), "oracle:SHIM:rendezvous:disconnect");
            record(format!("rendezvous_disconnect:{a:?}:{b:?}"));
        }
        "rendezvous_two" => {
            let (tx, rx) = mpsc::sync_channel::<u32>(0);
            let h = loom::thread::spawn(move || {
                let mut got = Vec::new();
                while let Ok(v) = rx.recv() {
                    got.push(v);
                }
                got
            });
            tx.send(1).unwrap();
            tx.send(2).unwrap();
            drop(tx);
            let got = h.join().unwrap();
            assert_eq!(got, vec![1, 2], "oracle:SHIM:rendezvous:order");
            record(format!("rendezvous_two:{got:?}"));
        }
        "barrier_2x2" | "barrier_3" => {
            let n = if script == "barrier_3" { 3 } else { 2 };
            let gens = if script == "barrier_3" { 1 } else { 2 };
            let barrier = Arc::new(Barrier::new(n));
            let counter = Arc::new(StdAtomicUsize::new(0));
            let work = |barrier: Arc<Barrier>, counter: Arc<StdAtomicUsize>| {
                move || {
                    let mut seen = Vec::new();
                    for g in 0..gens {
                        counter.fetch_add(1, SeqCst);
                        barrier.wait();
                        // No wait returns before the n-th arrival of its generation.
                        let c = counter.load(SeqCst);
                        assert!(c >= n * (g + 1), "oracle:SHIM:barrier:wait returned after {c} arrivals in generation {g}");
                        seen.push(c);
                    }
                    seen
                }
            };
            let hs: Vec<_> = (1..n).map(|_| loom::thread::spawn(work(barrier.clone(), counter.clone()))).collect();
            let mine = work(barrier.clone(), counter.clone())();
            let mut all = vec![mine];
            for h in hs {
                all.push(h.join().unwrap());
            }
            record(format!("{script}:{all:?}"));
        }
        "park_token_first" => {
            // An unpark delivered before the park makes the park return.
            let flag = Arc::new(AtomicUsize::new(0));
            let me = thread::current();
            let f2 = flag.clone();
            let h = loom::thread::spawn(move || {
                f2.store(1, Ordering::Release);
                me.unpark();
            });
            h.join().unwrap();
            while flag.load(Ordering::Acquire) == 0 {
                thread::park();
            }
            thread::park_consume_for_test();
            record("park_token_first:ok".to_owned());
        }
        "park_flag_loop" => {
            let flag = Arc::new(AtomicUsize::new(0));
            let me = thread::current();
            let f2 = flag.clone();
            let h = loom::thread::spawn(move || {
                f2.store(1, Ordering::Release);
                me.unpark();
            });
            let mut parks = 0;
            while flag.load(Ordering::Acquire) == 0 {
                thread::park();
                parks += 1;
            }
            h.join().unwrap();
            record(format!("park_flag_loop:parks={parks}"));
        }
        "park_stale_token" => {
            // A token left over from an earlier round wakes the next park once;
            // the flag loop must absorb it.
            let round = Arc::new(AtomicUsize::new(0));
            let me = thread::current();
            let r2 = round.clone();
            let h = loom::thread::spawn(move || {
                r2.store(1, Ordering::Release);
                me.unpark();
                r2.store(2, Ordering::Release);
                me.unpark();
            });
            let mut parks = 0;
            while round.load(Ordering::Acquire) < 1 {
                thread::park();
                parks += 1;
            }
            while round.load(Ordering::Acquire) < 2 {
                thread::park();
                parks += 1;
            }
            h.join().unwrap();
            record(format!("park_stale_token:parks={parks}"));
        }
        "mutex_lazy" => {
            static_mutex_test();
        }
        other => panic!("unknown shim script {other}"),
    }
}

fn static_mutex_test() {
    struct Holder {
        m: Mutex<usize>,
    }
    let holder = Arc::new(Holder { m: Mutex::new(0) });
    let hs: Vec<_> = (0..2)
        .map(|_| {
            let h = holder.clone();
            loom::thread::spawn(move || {
                let mut g = h.m.lock().unwrap();
                let v = *g;
                loom::thread::yield_now();
                *g = v + 1;
            })
        })
        .collect();
    {
        let mut g = holder.m.lock().unwrap();
        *g += 1;
    }
    for h in hs {
        h.join().unwrap();
    }
    let v = *holder.m.lock().unwrap();
    assert_eq!(v, 3, "oracle:SHIM:mutex:lost update");
    record(format!("mutex_lazy:{v}"));
}
