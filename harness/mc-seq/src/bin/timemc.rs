//! Engine S for C04 (min/max/skip_ext_time) and C19 (automatic sample size):
//! the real sample loop as a state machine whose environment is the scripted
//! clock. Every enumerated (options, clock history) is run on the real loop and
//! the executed rounds are compared with the documented rule re-evaluated on the
//! logged clock readings.
//!
//!   timemc --prop C04|C19 [--tier ..] [--part i/n] [--case <json>]

#[path = "../../../common/loopdrv.rs"]
mod loopdrv;
#[path = "../../../common/oracle.rs"]
mod oracle;

use loopdrv::*;
use mc_seq::{Cli, Report, Violation};
use serde_json::json;

fn check(r: &Report, prop: &str, case: &LoopCase, index: u64) {
    let out = run_case(case);
    if out.horizon {
        // cannot terminate within the horizon under this clock: excluded, counted
        r.add(&r.excluded, 1);
        return;
    }
    r.case(out.events.len() as u64);
    let (_, rounds, _) = oracle::rounds_of(&out.events);
    r.outcome(format!("{}:{}:{}", rounds.len(), rounds.last().map_or(0, |x| x.size()), out.report.as_ref().map_or(0, |x| x.durations.len())));
    r.sample(index, || json!({"case": {"n": case.sample_count, "s": case.sample_size, "min_ns": case.min_time_ns, "max_ns": case.max_time_ns, "skip_ext": case.skip_ext, "cost": case.cost, "read_cost": case.read_cost}, "rounds": rounds.len(), "round_sizes": rounds.iter().map(|x| x.size()).collect::<Vec<_>>(), "end_time": out.end_time}));
    if let Some(msg) = &out.panic {
        r.violation(Violation { sig: json!({"class":"panic"}), text: format!("{}: run panicked: {msg}", case.describe()), case: serde_json::to_value(case).unwrap() });
        return;
    }
    for f in oracle::check_time(case, &out) {
        // the stop rule is C04's statement whether or not the sample size is being tuned
        let stop_rule = matches!(f.class.as_str(), "ran-past-max" | "ran-past-min" | "stopped-before-count" | "stopped-before-min" | "no-rounds");
        if f.prop != prop && !(prop == "C04" && stop_rule) {
            continue;
        }
        r.violation(Violation {
            sig: json!({"engine":"S","class": f.class, "skip_ext": case.skip_ext.unwrap_or(false), "min_set": case.min_time_ns.is_some(), "max_set": case.max_time_ns.is_some()}),
            text: f.text,
            case: serde_json::to_value(case).unwrap(),
        });
    }
}

fn enumerate_c04(cli: &Cli, r: &Report) {
    let u = 1000u64; // 1 ns in ticks (frequency 10^12)
    let costs: [u64; 5] = [0, 400, u, 2 * u, 5 * u];
    let mins: [Option<u64>; 5] = [None, Some(0), Some(3), Some(7), Some(50)];
    let maxs: [Option<u64>; 6] = [None, Some(0), Some(1), Some(4), Some(6), Some(u64::MAX)];
    let skips: [Option<bool>; 3] = [None, Some(false), Some(true)];
    let mut index = 0u64;
    let mut histories: Vec<[Vec<u64>; 3]> = Vec::new(); // (gen, call, drop) per round
    for g in costs {
        for c in costs {
            for d in costs {
                histories.push([vec![g], vec![c], vec![d]]);
            }
        }
    }
    // two-round alternations of the call cost (then repeating the second)
    for c1 in costs {
        for c2 in costs {
            if c1 == c2 {
                continue;
            }
            for g in [0, u] {
                for d in [0, 2 * u] {
                    histories.push([vec![g], vec![c1, c2], vec![d]]);
                    histories.push([vec![g], vec![c1, c2, c1, c2, c1, c2, c1, c2], vec![d]]);
                }
            }
        }
    }
    if cli.thorough {
        // four-round histories over a 3-value alphabet for every site
        let small = [0u64, u, 5 * u];
        for a in small {
            for b in small {
                for c in small {
                    for d in small {
                        for g in [vec![0u64], vec![u, 0, 2 * u, 0]] {
                            for dr in [vec![0u64], vec![0, 5 * u, 0, u]] {
                                histories.push([g.clone(), vec![a, b, c, d], dr.clone()]);
                            }
                        }
                    }
                }
            }
        }
    }
    for n in [1u32, 2, 3] {
        for s in [1u32, 2] {
            for min in mins {
                for max in maxs {
                    for skip in skips {
                        for h in &histories {
                            for read_cost in [0u64, 1] {
                                index += 1;
                                if !cli.mine(index) {
                                    continue;
                                }
                                // entry with a generator and destructors so that external time exists
                                let mut case = LoopCase::basic(4, 3, 3);
                                case.sample_count = Some(n);
                                case.sample_size = Some(s);
                                case.min_time_ns = min;
                                case.max_time_ns = max;
                                case.skip_ext = skip;
                                case.cost[SITE_GEN] = h[0].clone();
                                case.cost[SITE_CALL] = h[1].clone();
                                case.cost[SITE_DROP_IN] = h[2].clone();
                                case.read_cost = read_cost;
                                case.horizon = 2 * 64 + 2;
                                check(r, "C04", &case, index);
                            }
                        }
                    }
                }
            }
        }
    }
    // The time rule does not depend on the types involved: every (entry point, input shape, output shape) - zero-sized or
    // not, with or without destructors, i.e. every storage path of the sample recorder - under option sets and clock
    // histories in which the time spent outside the timed sections (generation, drops) decides when sampling stops.
    for entry in 0..6usize {
        let ishapes: &[usize] = if entry < 2 { &[0] } else { &[0, 1, 2, 3] };
        for &ishape in ishapes {
            for oshape in 0..4usize {
                for (min, max) in [(None, Some(4u64)), (None, Some(6)), (Some(7u64), None), (Some(3), Some(6)), (Some(7), Some(4))] {
                    for skip in [None, Some(true)] {
                        for (g, c, d) in [(2 * u, u, 0), (u, u, 2 * u), (0, u, 5 * u), (5 * u, 400, u)] {
                            for s in [1u32, 2] {
                                index += 1;
                                if !cli.mine(index) {
                                    continue;
                                }
                                let mut case = LoopCase::basic(entry, ishape, oshape);
                                case.sample_count = Some(2);
                                case.sample_size = Some(s);
                                case.min_time_ns = min;
                                case.max_time_ns = max;
                                case.skip_ext = skip;
                                case.cost[SITE_GEN] = vec![if entry >= 2 { g } else { 0 }];
                                case.cost[SITE_CALL] = vec![c];
                                case.cost[SITE_DROP_IN] = vec![d];
                                case.cost[SITE_DROP_OUT] = vec![d];
                                case.horizon = 2 * 64 + 2;
                                check(r, "C04", &case, index);
                            }
                        }
                    }
                }
            }
        }
    }
    // Non-zero measurement overheads (subtracted from the *reported* sample durations only): the budget
    // under skip_ext_time still counts the raw timed sections.
    for n in [1u32, 3] {
        for s in [1u32, 4] {
            for min in [None, Some(7u64)] {
                for max in [None, Some(4u64), Some(6)] {
                    for skip in [Some(true), None] {
                        for c in [400u64, u, 2 * u] {
                            for overhead in [[300u64, 0, 0, 0], [900, 0, 0, 0], [100, 200, 100, 300]] {
                                index += 1;
                                if !cli.mine(index) {
                                    continue;
                                }
                                let mut case = LoopCase::basic(4, 3, 3);
                                case.sample_count = Some(n);
                                case.sample_size = Some(s);
                                case.min_time_ns = min;
                                case.max_time_ns = max;
                                case.skip_ext = skip;
                                case.cost[SITE_CALL] = vec![c];
                                case.cost[SITE_GEN] = vec![u];
                                case.alloc[SITE_CALL] = 2;
                                case.overhead_ps = overhead;
                                case.horizon = 2 * 64 + 2;
                                check(r, "C04", &case, index);
                            }
                        }
                    }
                }
            }
        }
    }
    // The same rule while the sample size is still being tuned (sample_size unset): budgets that run out
    // in the middle of tuning, expensive generation / drops next to a cheap function.
    for n in [1u32, 2] {
        for min in [None, Some(1u64), Some(40)] {
            for max in [None, Some(0u64), Some(1), Some(3), Some(12), Some(100), Some(1500)] {
                for skip in skips {
                    for (g, c, d) in [(0u64, 400u64, 0u64), (5 * u, 400, 0), (0, 400, 5 * u), (30 * u, u, 30 * u), (0, 20 * u, 0), (2 * u, 150 * u, u)] {
                        for threads in [1usize, 2] {
                            index += 1;
                            if !cli.mine(index) {
                                continue;
                            }
                            let mut case = LoopCase::basic(4, 3, 3);
                            case.sample_count = Some(n);
                            case.sample_size = None;
                            case.min_time_ns = min;
                            case.max_time_ns = max;
                            case.skip_ext = skip;
                            case.threads = threads;
                            case.cost[SITE_GEN] = vec![g];
                            case.cost[SITE_CALL] = vec![c];
                            case.cost[SITE_DROP_IN] = vec![d];
                            case.precision_ps = 1000;
                            case.horizon = 5000;
                            check(r, "C04", &case, index);
                        }
                    }
                }
            }
        }
    }
    r.set_bounds(json!({
        "sample_count": [1,2,3], "sample_size": [1,2], "min_time_ns": mins, "max_time_ns": ["unset",0,1,4,6,"Duration::MAX"], "skip_ext_time": ["unset",false,true],
        "clock_histories": histories.len(), "cost_alphabet_ticks": costs, "read_cost": [0,1], "horizon_rounds": 64,
        "excluded": "histories under which the loop cannot terminate within 64 rounds (e.g. frozen clock with min_time > 0) are excluded and counted"
    }));
}

fn enumerate_c19(cli: &Cli, r: &Report) {
    let p = 1000u64; // precision 1000 ps = 1000 ticks
    let mut models: Vec<(String, Vec<u64>)> = Vec::new();
    for c in [p / 10, p / 2, p, 3 * p, 13 * p, 50 * p, 101 * p, 10_000 * p] {
        models.push((format!("constant {c}"), vec![c]));
    }
    // constants whose doubling lands strictly between 100 and 101 precisions: the rule divides (floor),
    // so such a sample still counts as "within 100 times the precision"
    for c in [100 * p + 1, 100 * p + p / 2, 101 * p - 1, 50 * p + 300, 25 * p + 200, 785] {
        models.push((format!("constant {c}"), vec![c]));
    }
    if cli.thorough {
        models.push(("constant 1".into(), vec![1]));
        models.push(("constant 7".into(), vec![7]));
    }
    for c in [p, 7 * p, 30 * p] {
        models.push((format!("growing {c}"), (1..=12).map(|k| c * k).collect()));
        models.push((format!("shrinking {c}"), (1..=12).rev().map(|k| c * k).collect()));
    }
    let abc = [p / 2, 20 * p, 120 * p];
    for a in abc {
        for b in abc {
            for c in abc {
                for d in abc {
                    models.push((format!("noisy {a},{b},{c},{d}"), vec![a, b, c, d]));
                }
            }
        }
    }
    let mut index = 0u64;
    for (_, model) in &models {
        for n in [1u32, 2, 3, 100] {
            // max_time values: unset, and cuts in the middle of tuning: 150 ns, 450 ns, 1.2 us
            for max in [None, Some(150u64), Some(450), Some(1200), Some(40_000)] {
                for min in [None, Some(2_000u64)] {
                    for skip in [None, Some(true)] {
                        for (entry, ishape, oshape, counters, alloc_rounds) in [(0, 0, 0, 0u8, None), (2, 2, 0, 1, Some(1u64)), (4, 3, 3, 3, Some(2)), (5, 2, 3, 0, None)] {
                            index += 1;
                            if !cli.mine(index) {
                                continue;
                            }
                            let mut case = LoopCase::basic(entry, ishape, oshape);
                            case.sample_count = Some(n);
                            case.sample_size = None;
                            case.max_time_ns = max;
                            case.min_time_ns = min;
                            case.skip_ext = skip;
                            case.cost[SITE_CALL] = model.clone();
                            case.cost[SITE_GEN] = vec![if entry >= 2 { 300 } else { 0 }];
                            case.input_counters = if entry >= 2 { counters } else { 0 };
                            case.alloc[SITE_CALL] = if alloc_rounds.is_some() { 2 } else { 0 };
                            case.alloc_until_round = alloc_rounds;
                            case.precision_ps = p;
                            case.horizon = 5000;
                            check(r, "C19", &case, index);
                        }
                    }
                }
            }
        }
    }
    r.set_bounds(json!({
        "precision_ps": p, "cost_models": models.len(), "model_kinds": ["constant (from precision/10 to 10^4 x precision)", "growing", "shrinking", "noisy 4-round patterns over {p/2, 20p, 120p}"],
        "sample_count": [1,2,3,100], "max_time_ns": ["unset",150,450,1200,40000], "min_time_ns": ["unset",2000], "skip_ext_time": ["unset",true],
        "entries": 4, "excluded": "zero-cost functions under a frozen clock (size would overflow after 32 doublings) are excluded and counted"
    }));
}

/// Child mode: a tuned benchmark whose threshold uses the precision the timer *reports* (measured under
/// the virtual clock and cached per process), optionally after the OS timer was asked for its precision
/// first. Prints the final sample size.
fn reported_precision_child(order: &str) -> ! {
    if order == "os_first" {
        let _ = divan::verif::reported_precision(None);
    }
    let mut case = LoopCase::basic(0, 0, 0);
    case.freq = 1; // one tick = one second: no host clock comes near it
    case.read_cost = 1;
    case.sample_count = Some(1);
    case.sample_size = None;
    case.cost[SITE_CALL] = vec![1];
    case.unforced_precision = true;
    case.horizon = 100_000;
    let out = run_case(&case);
    match &out.report {
        Some(rep) => println!("size {}", rep.sample_size),
        None => println!("panic {:?}", out.panic),
    }
    std::process::exit(0)
}

fn check_reported_precision(r: &Report) {
    for order in ["tsc_only", "os_first"] {
        let out = std::process::Command::new(std::env::current_exe().unwrap())
            .env("TIMEMC_PRECISION_CHILD", order)
            .output()
            .expect("spawn timemc child");
        let text = String::from_utf8_lossy(&out.stdout).trim().to_owned();
        // a call costs one tick, a read one tick, the clock steps by one tick: the first size whose sample
        // spans more than 100 steps is 128 (64 + 2 reads <= 100)
        if text != "size 128" {
            r.violation(Violation {
                sig: json!({"engine":"S","class":"threshold-uses-another-timers-precision","order":order}),
                text: format!("a tuned benchmark on a TSC stepping by 1 s (a call = 1 step){}: answered {text:?}, the first size whose sample exceeds 100 steps is 128 (stderr: {})", if order == "os_first" { ", in a process that asked the OS timer for its precision first" } else { "" }, String::from_utf8_lossy(&out.stderr).chars().take(300).collect::<String>()),
                case: json!({"kind":"reported-precision","order":order}),
            });
        }
        r.case(1);
    }
}

fn main() {
    if let Ok(order) = std::env::var("TIMEMC_PRECISION_CHILD") {
        reported_precision_child(&order);
    }
    let cli = Cli::parse();
    mc_seq::quiet_panics();
    let mut prop = "C04".to_owned();
    let mut it = cli.sub.iter();
    while let Some(a) = it.next() {
        if a == "--prop" {
            prop = it.next().expect("--prop").clone();
        }
    }
    let r = Report::new(&format!("timemc-{prop}"), &cli);
    if let Some(case) = &cli.case {
        if case["kind"] == "reported-precision" {
            check_reported_precision(&r);
            r.emit();
        }
        let case: LoopCase = serde_json::from_value(case.clone()).expect("LoopCase");
        check(&r, &prop, &case, 0);
        r.emit();
    }
    match prop.as_str() {
        "C04" => enumerate_c04(&cli, &r),
        "C19" => {
            enumerate_c19(&cli, &r);
            if cli.mine(0) {
                check_reported_precision(&r);
            }
        }
        p => panic!("unknown property {p}"),
    }
    r.emit();
}
