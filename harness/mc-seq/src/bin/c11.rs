//! C11 — timestamp differences convert to picoseconds exactly, without overflow.
//!
//! Exhaustive over a boundary lattice B x B x F plus a dense low cube, against a
//! 256-bit integer reference; Duration conversion; precision under uniform-step
//! virtual clocks.

use divan::verif;
use divan_verif_rt::clock;
use mc_seq::{bigint::U256, par_for, Cli, Report, Violation};
use serde_json::json;
use std::time::Duration;

const PICOS: u128 = 1_000_000_000_000;

fn reference(a: u64, b: u64, f: u64) -> u128 {
    if b < a {
        return 0;
    }
    let (q, _) = U256::mul_u128((b - a) as u128, PICOS).div_rem_u128(f as u128);
    assert_eq!(q.hi, 0);
    q.lo
}

fn lattice_b() -> Vec<u64> {
    let mut v: Vec<u64> = vec![0, 1, 2, 3, 7, 99, 100, 101, 999, 1000, 1001];
    for k in [16u32, 31, 32, 33, 52, 53, 62, 63] {
        let p = 1u64 << k;
        v.extend([p - 1, p, p + 1]);
    }
    v.extend([u64::MAX - 2, u64::MAX - 1, u64::MAX]);
    let mut p = 10u64;
    for _ in 1..19 {
        p = p.saturating_mul(10);
        v.extend([p - 1, p, p + 1]);
    }
    v.extend([18_446_744_073_709, 18_446_744_073_710, 18_446_744, 18_446_745]);
    v.sort_unstable();
    v.dedup();
    v
}

fn lattice_f() -> Vec<u64> {
    let mut v: Vec<u64> = vec![
        1, 2, 3, 7, 10, 999, 1000, 1001, 24_000_000, 19_200_000, 1_000_000_000, 2_400_000_000,
        3_000_000_001, 2_999_999_999, 4_294_967_295, 4_294_967_296, 4_294_967_297, 10_000_000_000,
        999_999_999_999, 1_000_000_000_000, 1_000_000_000_001, 1 << 53, (1 << 63) - 1, 1 << 63, (1 << 63) + 1,
        u64::MAX - 1, u64::MAX,
    ];
    v.sort_unstable();
    v.dedup();
    v
}

fn check_triple(r: &Report, a: u64, b: u64, f: u64) {
    let got = verif::tsc_duration_since(b, a, f);
    let want = reference(a, b, f);
    if got != want {
        r.violation(Violation {
            sig: json!({"check":"tsc_duration","class": if b < a {"b<a"} else {"a<=b"}}),
            text: format!("duration_since(b={b}, a={a}, f={f}) = {got} ps, exact floor((b-a)*10^12/f) = {want} ps"),
            case: json!({"kind":"triple","a":a.to_string(),"b":b.to_string(),"f":f.to_string()}),
        });
    }
    // the same pair through the tagged `Timestamp`, the route the sampling loop and the timers take
    let tagged = verif::timestamp_duration_since(b, a, f);
    if tagged != want {
        r.violation(Violation {
            sig: json!({"check":"tagged_duration","class": if b < a {"b<a"} else {"a<=b"}}),
            text: format!("Timestamp::duration_since(b={b}, a={a}, f={f}) = {tagged} ps through the tagged route, exact floor((b-a)*10^12/f) = {want} ps"),
            case: json!({"kind":"triple","a":a.to_string(),"b":b.to_string(),"f":f.to_string()}),
        });
    }
}

/// The OS arm of the tagged route: instants `a` and `b` nanoseconds after a common base.
fn check_os_pair(r: &Report, a: u64, b: u64) {
    let got = verif::os_timestamp_duration_since(b, a);
    let want = if b < a { 0 } else { (b - a) as u128 * 1000 };
    if got != want {
        r.violation(Violation {
            sig: json!({"check":"os_duration","class": if b < a {"b<a"} else {"a<=b"}}),
            text: format!("Timestamp::Os: the difference of instants base+{b} ns and base+{a} ns is {got} ps, expected {want} ps"),
            case: json!({"kind":"os_pair","a":a.to_string(),"b":b.to_string()}),
        });
    }
}

fn check_derived(r: &Report, a: u64, m: u64, b: u64, f: u64) {
    // a <= m <= b
    let d = |x: u64, y: u64| verif::tsc_duration_since(y, x, f);
    let whole = d(a, b);
    let parts = d(a, m) + d(m, b);
    if !(whole >= parts && whole - parts <= 1) {
        r.violation(Violation {
            sig: json!({"check":"additivity"}),
            text: format!("d({a},{b})={whole} but d({a},{m})+d({m},{b})={parts} (f={f}); defect must be 0 or 1 ps"),
            case: json!({"kind":"derived","a":a.to_string(),"m":m.to_string(),"b":b.to_string(),"f":f.to_string()}),
        });
    }
    if d(a, m) > d(a, b) {
        r.violation(Violation {
            sig: json!({"check":"monotone"}),
            text: format!("not monotone in b: d({a},{m}) > d({a},{b}) (f={f})"),
            case: json!({"kind":"derived","a":a.to_string(),"m":m.to_string(),"b":b.to_string(),"f":f.to_string()}),
        });
    }
    // translation invariance: shift down by a (no overflow possible)
    if d(0, b - a) != whole {
        r.violation(Violation {
            sig: json!({"check":"translation"}),
            text: format!("d({a},{b})={whole} != d(0,{})={} (f={f})", b - a, d(0, b - a)),
            case: json!({"kind":"derived","a":a.to_string(),"m":m.to_string(),"b":b.to_string(),"f":f.to_string()}),
        });
    }
}

fn durations() -> Vec<Duration> {
    let mut v = vec![
        Duration::ZERO,
        Duration::from_nanos(1),
        Duration::from_nanos(999),
        Duration::from_nanos(1000),
        Duration::from_nanos(999_999_999),
        Duration::from_secs(1),
        Duration::new(1, 1),
        Duration::new(0, 999_999_999),
        Duration::from_secs(u32::MAX as u64),
        Duration::from_secs(u64::MAX),
        Duration::new(u64::MAX, 999_999_999),
        Duration::MAX,
        Duration::from_secs_f64(0.1),
        Duration::from_secs_f64(1e-9),
        Duration::from_micros(1),
        Duration::from_millis(1),
    ];
    for k in 0..64 {
        v.push(Duration::from_secs(1u64 << k));
        v.push(Duration::from_nanos((1u64 << k).wrapping_sub(1)));
    }
    v
}

fn check_duration(r: &Report, d: Duration) {
    let got = std::panic::catch_unwind(|| verif::duration_to_picos(d));
    let want = d.as_nanos().checked_mul(1000);
    match (got, want) {
        (Ok(g), Some(w)) if g == w => {}
        (got, want) => r.violation(Violation {
            sig: json!({"check":"duration_to_picos"}),
            text: format!("Duration {d:?} -> {:?}, expected nanos*1000 = {want:?}", got.map_err(|_| "panic")),
            case: json!({"kind":"duration","secs":d.as_secs().to_string(),"nanos":d.subsec_nanos()}),
        }),
    }
}

/// Precision under a clock whose value is the internal time rounded down to a
/// multiple of `step`; each read advances internal time by `delta` ticks.
fn check_precision(r: &Report, step: u64, delta: u64, f: u64) -> bool {
    let want = reference(0, step, f);
    if want == 0 {
        // A step below 1 ps never yields a non-zero sample: the real loop would
        // spin for ever, as it would on real hardware. Excluded, counted.
        r.add(&r.excluded, 1);
        return false;
    }
    // Pre-simulate the read sequence: pair k reads internal times 2k*delta and
    // (2k+1)*delta. A spacing that aliases with the step (every boundary falls
    // between two pairs) never shows a non-zero sample; such clocks are
    // excluded and counted. Otherwise the real code must return within the
    // simulated budget.
    let pairs = 20_000u64;
    let nonzero = (0..pairs).filter(|k| (2 * k * delta) / step != ((2 * k + 1) * delta) / step).count();
    if nonzero < 101 {
        r.add(&r.excluded, 1);
        return false;
    }
    clock::enable(f, 0, delta, 2 * pairs + 16);
    clock::set_quantum(step);
    let got = std::panic::catch_unwind(|| verif::measure_precision(f));
    let reads = clock::reads();
    clock::disable();
    match got {
        Ok(g) if g == want => {}
        other => r.violation(Violation {
            sig: json!({"check":"precision"}),
            text: format!(
                "precision of a clock stepping by {step} ticks at {f} Hz (read spacing {delta}) measured as {:?} ps, the step is {want} ps",
                other.map_err(mc_seq::panic_text)
            ),
            case: json!({"kind":"precision","step":step,"delta":delta,"f":f.to_string()}),
        }),
    }
    r.add(&r.transitions, reads);
    true
}

/// The same under a clock whose reads are slow at first: `a` samples spanning `k1` steps, then `b` samples
/// spanning `k2` steps, then one step per sample for ever (a, b < 100, so that neither early value can
/// have been seen a hundred times). The smallest difference seen a hundred times is the step.
fn check_precision_warmup(r: &Report, step: u64, f: u64, a: u64, k1: u64, b: u64, k2: u64) -> bool {
    let want = reference(0, step, f);
    if want == 0 {
        r.add(&r.excluded, 1);
        return false;
    }
    clock::enable(f, 0, step, 2 * (a + b) + 4096);
    clock::set_quantum(step);
    clock::set_read_cost_script(&[(2 * a, k1 * step), (2 * b, k2 * step), (u64::MAX, step)]);
    let got = std::panic::catch_unwind(|| verif::measure_precision(f));
    let reads = clock::reads();
    clock::disable();
    match got {
        Ok(g) if g == want => {}
        other => r.violation(Violation {
            sig: json!({"check":"precision","warmup":true}),
            text: format!(
                "precision of a clock stepping by {step} ticks at {f} Hz whose first {a} samples span {k1} steps and next {b} samples {k2} steps (one step afterwards) measured as {:?} ps, the step is {want} ps",
                other.map_err(mc_seq::panic_text)
            ),
            case: json!({"kind":"precision_warmup","step":step,"f":f.to_string(),"a":a,"k1":k1,"b":b,"k2":k2}),
        }),
    }
    r.add(&r.transitions, reads);
    true
}

/// Child mode: answers a sequence of reported-precision queries in one fresh process (the
/// caches behind `Timer::precision` are process-wide), one output line per query.
/// Script: comma-separated `os` / `tsc`; the TSC clock steps by `step` ticks at `f` Hz.
fn precision_child(script: &str) -> ! {
    let mut it = script.split(';');
    let step: u64 = it.next().unwrap().parse().unwrap();
    let f: u64 = it.next().unwrap().parse().unwrap();
    let seq = it.next().unwrap();
    clock::enable(f, 0, step, 1 << 40);
    clock::set_quantum(step);
    for q in seq.split(',') {
        let v = match q {
            "os" => verif::reported_precision(None),
            "tsc" => verif::reported_precision(Some(f)),
            other => panic!("unknown query {other}"),
        };
        println!("{q} {v}");
    }
    std::process::exit(0)
}

/// The precision *reported* for a timer (the cached path every consumer uses) in a process
/// that queries both timers, in every order up to three queries.
fn check_reported(r: &Report, step: u64, f: u64, seq: &str) {
    let want_tsc = reference(0, step, f);
    let out = std::process::Command::new(std::env::current_exe().unwrap())
        .env("C11_PRECISION_CHILD", format!("{step};{f};{seq}"))
        .output()
        .expect("spawn c11 child");
    let text = String::from_utf8_lossy(&out.stdout).to_string();
    let answers: Vec<(String, u128)> = text
        .lines()
        .filter_map(|l| {
            let (k, v) = l.split_once(' ')?;
            Some((k.to_string(), v.parse().ok()?))
        })
        .collect();
    let mut problem = None;
    if !out.status.success() || answers.len() != seq.split(',').count() {
        problem = Some(format!("the process did not answer every query ({:?}, stderr {})", out.status, String::from_utf8_lossy(&out.stderr)));
    } else {
        // The OS clock is the host's; its step is not under the harness's control, only
        // bounded: no monotonic clock this code runs on is coarser than 100 ms, and the
        // virtual TSC steps used here are all >= 1 s, so a swapped answer is unmistakable.
        const OS_BOUND: u128 = 100_000_000_000;
        let mut os_first: Option<u128> = None;
        for (k, v) in &answers {
            match k.as_str() {
                "tsc" if *v != want_tsc => {
                    problem = Some(format!("the TSC timer stepping by {want_tsc} ps reported a precision of {v} ps"));
                }
                "os" if *v == 0 || *v >= OS_BOUND => {
                    problem = Some(format!("the OS timer reported a precision of {v} ps (the virtual TSC steps by {want_tsc} ps)"));
                }
                "os" => {
                    if *os_first.get_or_insert(*v) != *v {
                        problem = Some(format!("the OS timer reported two precisions in one process: {:?} and {v}", os_first));
                    }
                }
                _ => {}
            }
        }
    }
    if let Some(p) = problem {
        r.violation(Violation {
            sig: json!({"check":"reported_precision"}),
            text: format!("queries [{seq}] in one process (TSC step {step} ticks at {f} Hz): {p}; answers {answers:?}"),
            case: json!({"kind":"reported","step":step,"f":f.to_string(),"seq":seq}),
        });
    }
    r.add(&r.transitions, answers.len() as u64);
}

fn parse_u64(v: &serde_json::Value) -> u64 {
    match v {
        serde_json::Value::String(s) => s.parse().unwrap(),
        other => other.as_u64().unwrap(),
    }
}

fn main() {
    if let Ok(script) = std::env::var("C11_PRECISION_CHILD") {
        precision_child(&script);
    }
    let cli = Cli::parse();
    mc_seq::quiet_panics();
    let r = Report::new("c11", &cli);

    if let Some(case) = &cli.case {
        match case["kind"].as_str().unwrap() {
            "triple" => check_triple(&r, parse_u64(&case["a"]), parse_u64(&case["b"]), parse_u64(&case["f"])),
            "derived" => check_derived(
                &r,
                parse_u64(&case["a"]),
                parse_u64(&case["m"]),
                parse_u64(&case["b"]),
                parse_u64(&case["f"]),
            ),
            "duration" => check_duration(&r, Duration::new(parse_u64(&case["secs"]), case["nanos"].as_u64().unwrap() as u32)),
            "precision" => {
                check_precision(&r, parse_u64(&case["step"]), parse_u64(&case["delta"]), parse_u64(&case["f"]));
            }
            "precision_warmup" => {
                check_precision_warmup(&r, parse_u64(&case["step"]), parse_u64(&case["f"]), parse_u64(&case["a"]), parse_u64(&case["k1"]), parse_u64(&case["b"]), parse_u64(&case["k2"]));
            }
            "os_pair" => check_os_pair(&r, parse_u64(&case["a"]), parse_u64(&case["b"])),
            "reported" => check_reported(&r, parse_u64(&case["step"]), parse_u64(&case["f"]), case["seq"].as_str().unwrap()),
            k => panic!("unknown case kind {k}"),
        }
        r.case(1);
        r.emit();
    }

    let mut bs = lattice_b();
    let mut fs = lattice_f();
    if cli.thorough {
        // every power of two and of ten with both neighbours, as reading and as frequency
        for k in 1..64u32 {
            let p = 1u64 << k;
            bs.extend([p - 1, p, p + 1]);
            fs.extend([p - 1, p, p + 1]);
        }
        let mut p = 1u64;
        for _ in 0..19 {
            p *= 10;
            fs.extend([p - 1, p, p + 1]);
        }
        bs.sort_unstable();
        bs.dedup();
        fs.sort_unstable();
        fs.dedup();
    }
    let dense: u64 = if cli.thorough { 512 } else { 96 };

    // (a) lattice
    let nb = bs.len() as u64;
    let nf = fs.len() as u64;
    par_for(nb * nb * nf, |i| {
        let (a, b, f) = (bs[(i / (nb * nf)) as usize], bs[((i / nf) % nb) as usize], fs[(i % nf) as usize]);
        check_triple(&r, a, b, f);
        r.case(1);
        r.outcome(format!("{}", verif::tsc_duration_since(b, a, f).leading_zeros() / 8));
        r.sample(i, || json!({"a":a.to_string(),"b":b.to_string(),"f":f.to_string(),"ps":verif::tsc_duration_since(b,a,f).to_string()}));
    });
    // derived properties on sorted triples a<=m<=b of the lattice
    // (over the base lattice of readings; the frequencies are the tier's)
    let bs0 = lattice_b();
    let nb0 = bs0.len() as u64;
    par_for(nb0 * nb0 * nb0, |i| {
        let (x, y, z) = (bs0[(i / (nb0 * nb0)) as usize], bs0[((i / nb0) % nb0) as usize], bs0[(i % nb0) as usize]);
        if x <= y && y <= z {
            for &f in &fs {
                check_derived(&r, x, y, z, f);
            }
            r.case(fs.len() as u64);
        }
    });
    // (b) dense cube
    par_for(dense * dense * (dense - 1), |i| {
        let f = i % (dense - 1) + 1;
        let b = (i / (dense - 1)) % dense;
        let a = i / ((dense - 1) * dense);
        check_triple(&r, a, b, f);
        r.case(1);
    });
    // (b'') thorough: windows of differences d = m*f + delta around whole multiples of the frequency (whole
    // seconds) and dense small differences, from bases at both ends of the range
    if cli.thorough {
        let bases: [u64; 6] = [0, 1, (1 << 32) - 1, 1 << 63, u64::MAX - (1 << 40), u64::MAX - 5000];
        let ms: [u64; 12] = [0, 1, 2, 3, 9, 10, 999, 1000, 18_446_743, 18_446_744, 18_446_745, 1 << 40];
        let nfs = fs.len() as u64;
        par_for(nfs * bases.len() as u64, |i| {
            let f = fs[(i % nfs) as usize];
            let a = bases[(i / nfs) as usize];
            let mut n = 0u64;
            for d in 0..4096u64 {
                if let Some(b) = a.checked_add(d) {
                    check_triple(&r, a, b, f);
                    n += 1;
                }
            }
            for m in ms {
                for delta in -3i64..=3 {
                    let Some(mf) = m.checked_mul(f) else { continue };
                    let d = if delta < 0 { mf.checked_sub((-delta) as u64) } else { mf.checked_add(delta as u64) };
                    let Some(b) = d.and_then(|d| a.checked_add(d)) else { continue };
                    check_triple(&r, a, b, f);
                    n += 1;
                }
            }
            r.case(n);
        });
    }
    // (b') OS instants: all pairs of offsets over a lattice up to about 292 years
    let os: Vec<u64> = bs.iter().copied().filter(|x| *x < (1u64 << 62)).collect();
    let no = os.len() as u64;
    par_for(no * no, |i| {
        check_os_pair(&r, os[(i / no) as usize], os[(i % no) as usize]);
        r.case(1);
    });
    // (c) Durations
    for d in durations() {
        check_duration(&r, d);
        r.case(1);
    }
    // (d) precision under uniform-step clocks
    let steps: &[u64] = if cli.thorough { &[1, 2, 3, 7, 10, 64, 1000, 123_457, 1 << 20] } else { &[1, 2, 3, 7, 10, 1000, 123_457] };
    let freqs: &[u64] = &[1_000_000_000, 2_400_000_000, 1_000_000_000_000, 24_000_000, 3];
    let mut precision_cases = 0u64;
    for &step in steps {
        let mut deltas = vec![step];
        if step >= 2 {
            deltas.push(step / 2);
        }
        if step >= 3 {
            deltas.push(step / 3);
        }
        if step > 1 && step <= 10 {
            deltas.push(1);
        }
        if cli.thorough && step >= 7 {
            deltas.push(step - 1);
            deltas.push(step + 1);
        }
        deltas.dedup();
        for &delta in &deltas {
            for &f in freqs {
                // A read spacing larger than the step skips quanta: differences are
                // then multiples of the step, not the step itself. Only spacings
                // <= step realise "advances in uniform steps" as seen by the timer.
                if delta > step {
                    continue;
                }
                if check_precision(&r, step, delta, f) {
                    precision_cases += 1;
                    r.case(1);
                    r.force_sample(json!({"precision_case":{"step":step,"read_spacing":delta,"f":f}}));
                }
            }
        }
    }

    // (d') slow first reads: every (a, b) of the grid x two pairs of multiples x steps x frequencies
    for &step in &[1u64, 7, 1000] {
        for &f in freqs {
            for (k1, k2) in [(3u64, 2u64), (5, 3), (2, 4)] {
                for a in [0u64, 1, 30, 60, 90, 99] {
                    for b in [0u64, 1, 45, 90, 99] {
                        if check_precision_warmup(&r, step, f, a, k1, b, k2) {
                            precision_cases += 1;
                            r.case(1);
                        }
                    }
                }
            }
        }
    }

    // (e) the reported (cached) precision, both timers queried in one process, every order
    let mut seqs: Vec<String> = Vec::new();
    for len in 1..=3u32 {
        for mask in 0..(1u32 << len) {
            let q: Vec<&str> = (0..len).map(|i| if mask >> i & 1 == 1 { "tsc" } else { "os" }).collect();
            if q.contains(&"tsc") {
                seqs.push(q.join(","));
            }
        }
    }
    let reported: &[(u64, u64)] = if cli.thorough { &[(1, 1), (3, 2), (7, 5), (1000, 999)] } else { &[(1, 1), (7, 5)] };
    let jobs: Vec<(u64, u64, String)> = reported.iter().flat_map(|&(s, f)| seqs.iter().map(move |q| (s, f, q.clone()))).collect();
    par_for(jobs.len() as u64, |i| {
        let (s, f, q) = &jobs[i as usize];
        check_reported(&r, *s, *f, q);
        r.case(1);
        r.outcome(format!("reported:{q}"));
    });

    r.set_bounds(json!({
        "reported_precision_processes": jobs.len(),
        "lattice_B": bs.len(), "lattice_F": fs.len(), "dense_cube": dense, "difference_windows": if cli.thorough { "6 bases x every frequency x (d < 4096 and m*f + [-3,3] for 12 multiples m)" } else { "thorough only" },
        "durations": durations().len(), "precision_cases": precision_cases,
        "reference": "256-bit integer floor((b-a)*10^12/f)"
    }));
    r.emit();
}
