//! C10 — allocation tallies are exact and track the true peak.
//!
//! Explicit-state breadth-first search over the real `ThreadAllocInfo`: a state is
//! the full thread-local tally structure; transitions are allocator operations
//! applied through the real `AllocProfiler<Mock>` (and `clear`). Every reached
//! state is compared with a reference computed from scratch from one history
//! that reaches it (counts and byte sums by filtering, peaks by scanning every
//! prefix balance). States are de-duplicated on the complete real structure, on
//! which the implementation's future behaviour solely depends.

#[path = "../../../common/loopdrv.rs"]
mod loopdrv;

use divan::verif::{self, TallyMirror};
use loopdrv::{apply_op, apply_op_refused, Op};
use mc_seq::{Cli, Report, Violation};
use serde_json::json;
use std::collections::HashSet;

const SIZES: [u64; 5] = [0, 1, 7, 4096, 1 << 40];

#[derive(Clone, Copy, Debug, PartialEq, Eq)]
enum Step {
    Op(Op),
    /// The same request, refused by the wrapped allocator (null): a request is an operation
    /// whether or not it succeeds, the tally counts it all the same.
    Refused(Op),
    /// The same request issued by a destructor while the thread is unwinding from a panic that the
    /// measured code catches itself: operations count wherever they happen.
    Unwinding(Op),
    Clear,
}

fn alphabet() -> Vec<Step> {
    let mut v = Vec::new();
    for z in SIZES {
        v.push(Step::Op(Op::Alloc(z)));
    }
    for z in SIZES {
        v.push(Step::Op(Op::AllocZeroed(z)));
    }
    for z in SIZES {
        v.push(Step::Op(Op::Dealloc(z)));
    }
    for a in SIZES {
        for b in SIZES {
            v.push(Step::Op(Op::Realloc(a, b)));
        }
    }
    const REFUSED_SIZES: [u64; 3] = [0, 7, 1 << 40];
    for z in REFUSED_SIZES {
        v.push(Step::Refused(Op::Alloc(z)));
        v.push(Step::Refused(Op::AllocZeroed(z)));
    }
    for a in REFUSED_SIZES {
        for b in REFUSED_SIZES {
            v.push(Step::Refused(Op::Realloc(a, b)));
        }
    }
    for op in [Op::Alloc(7), Op::AllocZeroed(4096), Op::Dealloc(7), Op::Realloc(7, 4096), Op::Realloc(4096, 0)] {
        v.push(Step::Unwinding(op));
    }
    v.push(Step::Clear);
    v
}

/// Reference computed from the whole history since the last clear.
fn reference(history: &[Step]) -> TallyMirror {
    let start = history.iter().rposition(|s| *s == Step::Clear).map_or(0, |i| i + 1);
    let ops: Vec<Op> = history[start..]
        .iter()
        .map(|s| match s {
            Step::Op(op) | Step::Refused(op) | Step::Unwinding(op) => *op,
            Step::Clear => unreachable!(),
        })
        .collect();
    let mut t = TallyMirror::default();
    // exact counts and byte sums, by category
    for op in &ops {
        match *op {
            Op::Alloc(z) | Op::AllocZeroed(z) => {
                t.tallies[2].0 += 1;
                t.tallies[2].1 += z;
            }
            Op::Dealloc(z) => {
                t.tallies[3].0 += 1;
                t.tallies[3].1 += z;
            }
            Op::Realloc(a, b) if b < a => {
                t.tallies[1].0 += 1;
                t.tallies[1].1 += a - b;
            }
            Op::Realloc(a, b) => {
                t.tallies[0].0 += 1;
                t.tallies[0].1 += b - a;
            }
        }
    }
    // balances after every prefix; the peak is their maximum (never below 0:
    // the empty prefix has balance 0)
    let (mut count, mut size) = (0i128, 0i128);
    let (mut max_count, mut max_size) = (0i128, 0i128);
    for op in &ops {
        match *op {
            Op::Alloc(z) | Op::AllocZeroed(z) => {
                count += 1;
                size += z as i128;
            }
            Op::Dealloc(z) => {
                count -= 1;
                size -= z as i128;
            }
            Op::Realloc(a, b) => size += b as i128 - a as i128,
        }
        max_count = max_count.max(count);
        max_size = max_size.max(size);
    }
    t.current_count = count as i64;
    t.current_size = size as i64;
    t.max_count = max_count as i64;
    t.max_size = max_size as i64;
    t
}

fn apply_real(from: &TallyMirror, step: Step) -> TallyMirror {
    assert!(verif::tally_set(from));
    match step {
        Step::Op(op) => apply_op(op),
        Step::Refused(op) => apply_op_refused(op),
        Step::Unwinding(op) => {
            struct InDrop(Op);
            impl Drop for InDrop {
                fn drop(&mut self) {
                    assert!(std::thread::panicking());
                    apply_op(self.0);
                }
            }
            let caught = std::panic::catch_unwind(move || {
                let _guard = InDrop(op);
                std::panic::resume_unwind(Box::new(()));
            });
            assert!(caught.is_err());
        }
        Step::Clear => {
            verif::tally_clear();
        }
    }
    verif::tally_get().expect("thread-local tally")
}

fn describe(h: &[Step]) -> Vec<String> {
    h.iter().map(|s| format!("{s:?}")).collect()
}

fn encode(h: &[Step]) -> serde_json::Value {
    json!(h
        .iter()
        .map(|s| match s {
            Step::Clear => json!(["clear"]),
            Step::Op(Op::Alloc(z)) => json!(["alloc", z.to_string()]),
            Step::Op(Op::AllocZeroed(z)) => json!(["alloc_zeroed", z.to_string()]),
            Step::Op(Op::Dealloc(z)) => json!(["dealloc", z.to_string()]),
            Step::Op(Op::Realloc(a, b)) => json!(["realloc", a.to_string(), b.to_string()]),
            Step::Unwinding(Op::Alloc(z)) => json!(["unwinding_alloc", z.to_string()]),
            Step::Unwinding(Op::AllocZeroed(z)) => json!(["unwinding_alloc_zeroed", z.to_string()]),
            Step::Unwinding(Op::Dealloc(z)) => json!(["unwinding_dealloc", z.to_string()]),
            Step::Unwinding(Op::Realloc(a, b)) => json!(["unwinding_realloc", a.to_string(), b.to_string()]),
            Step::Refused(Op::Alloc(z)) => json!(["refused_alloc", z.to_string()]),
            Step::Refused(Op::AllocZeroed(z)) => json!(["refused_alloc_zeroed", z.to_string()]),
            Step::Refused(Op::Dealloc(z)) => json!(["refused_dealloc", z.to_string()]),
            Step::Refused(Op::Realloc(a, b)) => json!(["refused_realloc", a.to_string(), b.to_string()]),
        })
        .collect::<Vec<_>>())
}

fn decode(v: &serde_json::Value) -> Vec<Step> {
    v.as_array()
        .unwrap()
        .iter()
        .map(|s| {
            let a = s.as_array().unwrap();
            let n = |i: usize| a[i].as_str().unwrap().parse::<u64>().unwrap();
            match a[0].as_str().unwrap() {
                "clear" => Step::Clear,
                "alloc" => Step::Op(Op::Alloc(n(1))),
                "alloc_zeroed" => Step::Op(Op::AllocZeroed(n(1))),
                "dealloc" => Step::Op(Op::Dealloc(n(1))),
                "unwinding_alloc" => Step::Unwinding(Op::Alloc(n(1))),
                "unwinding_alloc_zeroed" => Step::Unwinding(Op::AllocZeroed(n(1))),
                "unwinding_dealloc" => Step::Unwinding(Op::Dealloc(n(1))),
                "unwinding_realloc" => Step::Unwinding(Op::Realloc(n(1), n(2))),
                "refused_alloc" => Step::Refused(Op::Alloc(n(1))),
                "refused_alloc_zeroed" => Step::Refused(Op::AllocZeroed(n(1))),
                "refused_dealloc" => Step::Refused(Op::Dealloc(n(1))),
                "refused_realloc" => Step::Refused(Op::Realloc(n(1), n(2))),
                _ => Step::Op(Op::Realloc(n(1), n(2))),
            }
        })
        .collect()
}

fn compare(r: &Report, history: &[Step], got: &TallyMirror) -> bool {
    let want = reference(history);
    if *got == want {
        return true;
    }
    let field = if got.tallies != want.tallies {
        "tallies"
    } else if got.max_count != want.max_count || got.max_size != want.max_size {
        "peak"
    } else {
        "balance"
    };
    let last = history.last().map(|s| format!("{s:?}")).unwrap_or_default();
    let last_kind = last.split('(').next().unwrap_or("").to_owned();
    r.violation(Violation {
        sig: json!({"check":"tally","field":field,"last_op":last_kind}),
        text: format!("after {:?} the thread's tally is {got:?}, the exact figures are {want:?}", describe(history)),
        case: json!({"kind":"history","steps": encode(history)}),
    });
    false
}

fn replay(r: &Report, history: &[Step]) {
    verif::tally_clear();
    let mut state = verif::tally_get().unwrap();
    for i in 0..history.len() {
        state = apply_real(&state, history[i]);
        compare(r, &history[..=i], &state);
    }
    r.case(history.len() as u64);
}

fn main() {
    let cli = Cli::parse();
    mc_seq::quiet_panics();
    let r = Report::new("c10", &cli);
    if let Some(case) = &cli.case {
        replay(&r, &decode(&case["steps"]));
        r.emit();
    }

    let steps = alphabet();
    let depth = if cli.thorough { 7 } else { 6 };
    let max_states: usize = 12_000_000;

    verif::tally_clear();
    let init = verif::tally_get().unwrap();
    // Arena of stored states with parent links (histories are rebuilt on demand).
    struct Node {
        state: TallyMirror,
        parent: u32,
        step: u16,
        depth: u8,
    }
    let mut seen: HashSet<TallyMirror> = HashSet::new();
    let mut arena: Vec<Node> = vec![Node { state: init, parent: u32::MAX, step: 0, depth: 0 }];
    seen.insert(init);
    let mut completed_depth = 0;
    let mut capped = false;
    let mut transitions = 0u64;
    let mut last_level = 0u64;
    let mut cursor = 0usize;

    while cursor < arena.len() {
        let (state, node_depth) = (arena[cursor].state, arena[cursor].depth as usize);
        let mut history: Vec<Step> = Vec::with_capacity(depth);
        {
            let mut at = cursor;
            while arena[at].parent != u32::MAX {
                history.push(steps[arena[at].step as usize]);
                at = arena[at].parent as usize;
            }
            history.reverse();
        }
        let parent = cursor as u32;
        cursor += 1;
        if node_depth >= depth {
            continue;
        }
        completed_depth = completed_depth.max(node_depth);
        for (si, &step) in steps.iter().enumerate() {
            // Partitioning across processes: by the first step of the history.
            if history.is_empty() && !cli.mine(si as u64) {
                continue;
            }
            let next = apply_real(&state, step);
            transitions += 1;
            history.push(step);
            let ok = compare(&r, &history, &next);
            // States of the last level are checked but need not be stored.
            if ok && history.len() >= depth {
                last_level += 1;
            } else if ok && seen.insert(next) {
                if seen.len() > max_states {
                    capped = true;
                } else {
                    r.sample(seen.len() as u64, || json!({"history": describe(&history), "state": format!("{next:?}")}));
                    arena.push(Node { state: next, parent, step: si as u16, depth: history.len() as u8 });
                }
            }
            history.pop();
        }
        if capped {
            break;
        }
    }
    let _ = last_level;
    r.add(&r.states, seen.len() as u64);
    r.add(&r.transitions, transitions);
    r.add(&r.traces, transitions);
    r.add(&r.evaluations, transitions);
    for s in seen.iter().take(50_000) {
        r.outcome(format!("{}:{}", s.max_count, s.current_count));
    }
    if capped {
        r.exhaustive.store(false, std::sync::atomic::Ordering::Relaxed);
    }

    // Long deterministic histories (thousands of operations, no clear in between
    // except every 997 steps), invariant checked after every step.
    let long = if cli.thorough { 20_000 } else { 5_000 };
    for stride in [1usize, 7, 11, 13] {
        if cli.part.0 != 0 {
            break;
        }
        verif::tally_clear();
        let mut state = verif::tally_get().unwrap();
        let mut history: Vec<Step> = Vec::new();
        for i in 0..long {
            let mut step = steps[(i * stride + i / 41) % steps.len()];
            if step == Step::Clear && i % 997 != 0 {
                step = Step::Op(Op::Alloc(7));
            }
            state = apply_real(&state, step);
            history.push(step);
            if step == Step::Clear {
                history.clear();
            }
            if !compare(&r, &history, &state) {
                break;
            }
        }
        r.case(long as u64);
    }

    r.set_bounds(json!({
        "sizes": SIZES.iter().map(|s| s.to_string()).collect::<Vec<_>>(), "alphabet": steps.len(), "depth": depth,
        "completed_depth": completed_depth + 1, "stored_states": seen.len(), "last_level_states_checked_not_stored": last_level, "state_cap": max_states, "capped": capped,
        "long_histories": {"count": 4, "length": long},
        "dedup": "on the complete real ThreadAllocInfo (all 12 fields)"
    }));
    r.emit();
}
