//! C05 — reported statistics are the exact order statistics of the samples.
//!
//!  (a) injected samples: every duration *sequence* (not multiset: the alloc /
//!      counter lookup goes through the sample's address) of length 0..5 over a
//!      7-value alphabet x sample sizes x tally presence masks x counter modes,
//!      through the real `compute_stats`, against an exact integer reference.
//!  (b) through the real loop with scripted clocks, allocation scripts and
//!      per-input counters: the statistics must be the reference statistics of
//!      the recorded samples, and the recorded samples must be what the clock
//!      and the inputs dictate.

#[path = "../../../common/loopdrv.rs"]
mod loopdrv;

use divan::verif::{self, InjectedCounter, InjectedSample, StatsMirror, TallyMirror};
use mc_seq::{par_for, Cli, Report, Violation};
use serde_json::json;

const DURS: [u128; 7] = [0, 1, 2, 3, 7, 1000, (1u128 << 64) + 1];
const SIZES: [u32; 4] = [1, 2, 3, 1000];
const MASKS: [u8; 5] = [0, 0b11111, 0b10101, 0b01010, 0b00001];

fn tally_for(i: usize) -> TallyMirror {
    let k = i as u64 + 1;
    TallyMirror {
        tallies: [(k, 10 * k), (2 * k, 100 * k), (3 * k + 1, 1000 * k + 7), (5 * k, 4096 * k)],
        current_count: 0,
        max_count: 7 * k as i64,
        current_size: 0,
        max_size: 9000 * k as i64 + 3,
    }
}

fn gcd(a: usize, b: usize) -> usize {
    if b == 0 { a } else { gcd(b, a % b) }
}

fn counter_for(i: usize) -> u64 {
    1000 + 37 * i as u64 * i as u64 + i as u64
}

#[derive(Clone, Debug)]
struct Inputs {
    sample_size: u32,
    durations: Vec<u128>,
    tallies: Vec<Option<TallyMirror>>,
    /// per kind: None, Some(Err(constant)), Some(Ok(per-sample values))
    counters: [Option<Result<Vec<u64>, u64>>; 4],
}

fn close(a: f64, b: f64) -> bool {
    if a.is_nan() || b.is_nan() {
        return false;
    }
    (a - b).abs() <= 1e-9 * a.abs().max(b.abs()).max(1e-300)
}

/// All statistics that depend on *which* sample supplied fastest / slowest /
/// median, for one admissible choice of samples.
#[derive(Clone, Debug, PartialEq)]
struct Pick {
    fastest: usize,
    slowest: usize,
    median: (usize, Option<usize>),
}

fn picks(d: &[u128]) -> Vec<Pick> {
    let n = d.len();
    if n == 0 {
        return Vec::new();
    }
    let mut sorted: Vec<u128> = d.to_vec();
    sorted.sort_unstable();
    let (min, max) = (sorted[0], sorted[n - 1]);
    let idx = |v: u128| -> Vec<usize> { (0..n).filter(|&i| d[i] == v).collect() };
    let mut medians: Vec<(usize, Option<usize>)> = Vec::new();
    if n % 2 == 1 {
        for i in idx(sorted[n / 2]) {
            medians.push((i, None));
        }
    } else {
        let (a, b) = (sorted[n / 2 - 1], sorted[n / 2]);
        for i in idx(a) {
            for j in idx(b) {
                if i != j {
                    medians.push((i, Some(j)));
                }
            }
        }
    }
    let mut out = Vec::new();
    for &f in &idx(min) {
        for &s in &idx(max) {
            for &m in &medians {
                out.push(Pick { fastest: f, slowest: s, median: m });
            }
        }
    }
    out
}

/// Returns a description of the first mismatch, or None.
fn compare(inp: &Inputs, st: &StatsMirror) -> Option<(String, String)> {
    let n = inp.durations.len();
    let s = inp.sample_size as u128;
    if st.sample_count as usize != n {
        return Some(("sample_count".into(), format!("samples = {}, {} recorded", st.sample_count, n)));
    }
    if st.iter_count != n as u64 * inp.sample_size as u64 {
        return Some(("iter_count".into(), format!("iters = {}, expected {} x {}", st.iter_count, n, inp.sample_size)));
    }
    // no NaN anywhere
    let floats: Vec<f64> = st
        .max_alloc_count
        .iter()
        .chain(st.max_alloc_size.iter())
        .chain(st.alloc_tallies.iter().flat_map(|(c, z)| c.iter().chain(z.iter())))
        .copied()
        .collect();
    if floats.iter().any(|x| x.is_nan()) {
        return Some(("nan".into(), "an allocation figure is NaN (it would be printed)".into()));
    }
    if n == 0 {
        if st.time != [0; 4] {
            return Some(("empty-time".into(), format!("zero samples but time statistics {:?}", st.time)));
        }
        if floats.iter().any(|x| *x != 0.0) {
            return Some(("empty-alloc".into(), "zero samples but non-zero allocation figures".into()));
        }
        return None;
    }
    if s == 0 {
        return None; // sample size 0 never reaches the statistics with samples
    }
    let mut sorted = inp.durations.clone();
    sorted.sort_unstable();
    let total: u128 = sorted.iter().sum();
    let median_dur = if n % 2 == 1 { sorted[n / 2] } else { (sorted[n / 2 - 1] + sorted[n / 2]) / 2 };
    let want_time = [sorted[0] / s, sorted[n - 1] / s, median_dur / s, total / (s * n as u128)];
    if st.time != want_time {
        let which = ["fastest", "slowest", "median", "mean"][(0..4).find(|&i| st.time[i] != want_time[i]).unwrap()];
        return Some((format!("time-{which}"), format!("time (fastest, slowest, median, mean) = {:?}, exact order statistics are {want_time:?}", st.time)));
    }
    if !(st.time[0] <= st.time[2] && st.time[2] <= st.time[1] && st.time[0] <= st.time[3] && st.time[3] <= st.time[1]) {
        return Some(("ordering".into(), format!("fastest <= median/mean <= slowest violated: {:?}", st.time)));
    }
    // means over all samples / iterations
    let iters = (n as u128 * s) as f64;
    let sf = inp.sample_size as f64;
    let sum_t = |f: &dyn Fn(&TallyMirror) -> f64| -> f64 { inp.tallies.iter().flatten().map(|t| f(t)).sum() };
    if !close(st.max_alloc_count[3], sum_t(&|t| t.max_count as f64) / iters) || !close(st.max_alloc_size[3], sum_t(&|t| t.max_size as f64) / iters) {
        return Some(("alloc-mean".into(), format!("mean max alloc = ({}, {}), expected sums over all samples / iterations", st.max_alloc_count[3], st.max_alloc_size[3])));
    }
    for op in 0..4 {
        if !close(st.alloc_tallies[op].0[3], sum_t(&|t| t.tallies[op].0 as f64) / iters) || !close(st.alloc_tallies[op].1[3], sum_t(&|t| t.tallies[op].1 as f64) / iters) {
            return Some(("alloc-mean".into(), format!("mean of alloc op {op} = ({}, {})", st.alloc_tallies[op].0[3], st.alloc_tallies[op].1[3])));
        }
    }
    for kind in 0..4 {
        match (&inp.counters[kind], &st.counts[kind]) {
            (None, None) => {}
            (None, Some(c)) => return Some(("counter-phantom".into(), format!("counter kind {kind} reported {c:?} though none was set"))),
            (Some(_), None) => return Some(("counter-missing".into(), format!("counter kind {kind} was set but is not reported"))),
            (Some(Err(c)), Some(got)) => {
                if got != &[*c; 4] {
                    return Some(("counter-constant".into(), format!("constant counter {c} of kind {kind} reported as {got:?}")));
                }
            }
            (Some(Ok(values)), Some(got)) => {
                let sum: u128 = values.iter().map(|v| *v as u128).sum();
                if got[3] as u128 != sum / n as u128 {
                    return Some(("counter-mean".into(), format!("mean of per-sample counter kind {kind} = {}, expected floor({sum}/{n})", got[3])));
                }
            }
        }
    }
    // figures tied to the very samples that supplied the times: some admissible
    // choice of (fastest, slowest, median) samples must explain all of them at once
    let tally = |i: usize| inp.tallies[i].unwrap_or_default();
    let mut last_miss = String::new();
    'pick: for p in picks(&inp.durations) {
        let med_n = if p.median.1.is_some() { 2.0 } else { 1.0 };
        let med = |f: &dyn Fn(&TallyMirror) -> f64| -> f64 { (f(&tally(p.median.0)) + p.median.1.map_or(0.0, |j| f(&tally(j)))) / med_n / sf };
        let want3 = |f: &dyn Fn(&TallyMirror) -> f64| -> [f64; 3] { [f(&tally(p.fastest)) / sf, f(&tally(p.slowest)) / sf, med(f)] };
        let ok3 = |got: &[f64; 4], want: [f64; 3]| (0..3).all(|i| close(got[i], want[i]));
        if !ok3(&st.max_alloc_count, want3(&|t| t.max_count as f64)) || !ok3(&st.max_alloc_size, want3(&|t| t.max_size as f64)) {
            last_miss = format!("max alloc under fastest/slowest/median = {:?} / {:?}", &st.max_alloc_count[..3], &st.max_alloc_size[..3]);
            continue 'pick;
        }
        for op in 0..4 {
            if !ok3(&st.alloc_tallies[op].0, want3(&|t| t.tallies[op].0 as f64)) || !ok3(&st.alloc_tallies[op].1, want3(&|t| t.tallies[op].1 as f64)) {
                last_miss = format!("alloc op {op} under fastest/slowest/median = {:?} / {:?}", &st.alloc_tallies[op].0[..3], &st.alloc_tallies[op].1[..3]);
                continue 'pick;
            }
        }
        for kind in 0..4 {
            if let (Some(Ok(values)), Some(got)) = (&inp.counters[kind], &st.counts[kind]) {
                let m = match p.median.1 {
                    Some(j) => ((values[p.median.0] as u128 + values[j] as u128) / 2) as u64,
                    None => values[p.median.0],
                };
                if got[0] != values[p.fastest] || got[1] != values[p.slowest] || got[2] != m {
                    last_miss = format!("per-sample counter kind {kind} under fastest/slowest/median = {:?} (per-sample values {values:?})", &got[..3]);
                    continue 'pick;
                }
            }
        }
        return None;
    }
    Some(("sample-association".into(), format!("no choice of fastest / slowest / median samples explains the allocation and counter figures: {last_miss}")))
}

fn run_injected(inp: &Inputs) -> Result<StatsMirror, String> {
    let samples: Vec<InjectedSample> = inp.durations.iter().zip(&inp.tallies).map(|(d, t)| InjectedSample { duration: *d, tally: *t }).collect();
    let counters: [InjectedCounter; 4] = std::array::from_fn(|k| match &inp.counters[k] {
        None => InjectedCounter::None,
        Some(Err(c)) => InjectedCounter::Constant(*c),
        Some(Ok(v)) => InjectedCounter::PerSample(v.clone()),
    });
    verif::stats_of(inp.sample_size, &samples, &counters)
}

fn inputs_json(inp: &Inputs) -> serde_json::Value {
    json!({
        "kind": "injected",
        "sample_size": inp.sample_size,
        "durations": inp.durations.iter().map(|d| d.to_string()).collect::<Vec<_>>(),
        "tally_present": inp.tallies.iter().map(|t| t.is_some()).collect::<Vec<_>>(),
        "counters": inp.counters.iter().map(|c| match c { None => json!(null), Some(Err(c)) => json!({"constant": c}), Some(Ok(v)) => json!({"per_sample": v}) }).collect::<Vec<_>>(),
    })
}

fn inputs_from(v: &serde_json::Value) -> Inputs {
    let durations: Vec<u128> = v["durations"].as_array().unwrap().iter().map(|d| d.as_str().unwrap().parse().unwrap()).collect();
    Inputs {
        sample_size: v["sample_size"].as_u64().unwrap() as u32,
        tallies: v["tally_present"].as_array().unwrap().iter().enumerate().map(|(i, p)| if p.as_bool().unwrap() { Some(tally_for(i)) } else { None }).collect(),
        counters: std::array::from_fn(|k| {
            let c = &v["counters"][k];
            if c.is_null() {
                None
            } else if let Some(k) = c["constant"].as_u64() {
                Some(Err(k))
            } else {
                Some(Ok(c["per_sample"].as_array().unwrap().iter().map(|x| x.as_u64().unwrap()).collect()))
            }
        }),
        durations,
    }
}

fn check_injected(r: &Report, inp: &Inputs) {
    let res = run_injected(inp);
    let n = inp.durations.len();
    match res {
        Err(msg) => r.violation(Violation {
            sig: json!({"check":"stats","class":"panic","zero_samples": n == 0}),
            text: format!("computing statistics of {n} samples (sample size {}) panics: {msg}", inp.sample_size),
            case: inputs_json(inp),
        }),
        Ok(st) => {
            if let Some((class, text)) = compare(inp, &st) {
                r.violation(Violation {
                    sig: json!({"check":"stats","class":class,"zero_samples": n == 0}),
                    text: format!("samples {:?} ps, sample size {}: {text}", inp.durations, inp.sample_size),
                    case: inputs_json(inp),
                });
            }
        }
    }
}

// ------------------------------------------------------------- (b) the loop

fn check_loop(r: &Report, case: &loopdrv::LoopCase, index: u64) {
    use divan_verif_rt::log::Kind;
    use loopdrv::*;
    let out = run_case(case);
    if out.horizon {
        r.add(&r.excluded, 1);
        return;
    }
    r.case(out.events.len() as u64);
    let case_json = || json!({"kind":"loop","case": case});
    let Some(rep) = &out.report else {
        r.violation(Violation { sig: json!({"check":"loop","class":"panic"}), text: format!("{}: run panicked: {:?}", case.describe(), out.panic), case: case_json() });
        return;
    };
    r.sample(index, || json!({"case": case.describe(), "recorded_ps": rep.durations.iter().map(|d| d.to_string()).collect::<Vec<_>>(), "stats": rep.stats.as_ref().ok().map(|s| s.time.map(|t| t.to_string()))}));
    r.outcome(format!("{}:{:?}", rep.durations.len(), rep.stats.as_ref().map(|s| s.time[0]).ok()));
    // recorded samples vs the clock: raw = end - start of each timed section
    let traces = parse_threads(&out.events);
    // samples are stored round by round and, within a round, by position in the pool (0 = the caller)
    let threads = case.effective_threads() as usize;
    let secs: Vec<&Section> = if threads <= 1 {
        traces.iter().flat_map(|t| t.sections.iter()).collect()
    } else {
        let mut by_pos: Vec<Option<&Vec<Section>>> = vec![None; threads];
        for tr in traces.iter().filter(|t| !t.sections.is_empty()) {
            if let Some(&pi) = out.pool_index.get(tr.thread as usize) {
                if pi < threads {
                    by_pos[pi] = Some(&tr.sections);
                }
            }
        }
        let rounds = by_pos.iter().map(|s| s.map_or(0, |s| s.len())).min().unwrap_or(0);
        if by_pos.iter().any(|s| s.is_none()) || by_pos.iter().any(|s| s.unwrap().len() != rounds) {
            // the threads could not be told apart by name: no verdict for this case
            r.add(&r.excluded, 1);
            return;
        }
        (0..rounds).flat_map(|k| by_pos.iter().map(move |s| &s.unwrap()[k])).collect()
    };
    let recorded = rep.durations.len();
    if recorded > secs.len() {
        r.violation(Violation { sig: json!({"check":"loop","class":"phantom-samples"}), text: format!("{}: {recorded} samples recorded but only {} timed sections ran", case.describe(), secs.len()), case: case_json() });
        return;
    }
    let used = &secs[secs.len() - recorded..];
    let tuned = case.sample_size.is_none();
    let ps_per_tick = 1_000_000_000_000u128 / case.freq as u128;
    for (i, sec) in used.iter().enumerate() {
        let raw = (sec.end.1 - sec.start.1) as u128 * ps_per_tick;
        let size = sec.calls().len() as u128;
        let floor = if tuned { case.precision_ps as u128 } else { 0 };
        let clamp = |v: u128| if v == 0 { floor } else { v };
        let t = reference_tally(sec.timed_ops());
        let overhead = case.overhead_ps[0] as u128 * size
            + case.overhead_ps[1] as u128 * t.tallies[2].0 as u128
            + case.overhead_ps[2] as u128 * t.tallies[3].0 as u128
            + case.overhead_ps[3] as u128 * (t.tallies[0].0 + t.tallies[1].0) as u128;
        let want = clamp(clamp(raw).saturating_sub(overhead));
        if rep.durations[i] != want {
            r.violation(Violation {
                sig: json!({"check":"loop","class":"recorded-duration","overhead": overhead > 0}),
                text: format!("{}: sample {i} measured {raw} ps between its timestamps (overhead {overhead} ps, precision floor {floor} ps) but {} ps was recorded, expected {want}", case.describe(), rep.durations[i]),
                case: case_json(),
            });
            return;
        }
    }
    // the statistics divide by the reported sample size: it must be the number of iterations
    // the recorded samples actually ran (also when a time budget ends the run during tuning)
    if let Some(sec) = used.first() {
        let actual = sec.calls().len();
        if used.iter().any(|s| s.calls().len() != actual) || rep.sample_size as usize != actual {
            r.violation(Violation {
                sig: json!({"check":"loop","class":"divisor","tuned": tuned, "max_time": case.max_time_ns.is_some()}),
                text: format!("{}: the recorded samples ran {:?} iterations each but the statistics divide by a sample size of {}", case.describe(), used.iter().map(|s| s.calls().len()).collect::<Vec<_>>(), rep.sample_size),
                case: case_json(),
            });
            return;
        }
    }
    // allocation figures of a sample are those of its own timed section: a stored
    // tally that the section did not produce (e.g. left over from a discarded
    // tuning round) would be attributed to this sample by the statistics
    for (i, sec) in used.iter().enumerate() {
        let own = reference_tally(sec.timed_ops());
        let own = if own.tallies.iter().all(|x| *x == (0, 0)) { None } else { Some(own) };
        if rep.tallies[i] != own {
            r.violation(Violation {
                sig: json!({"check":"loop","class":"sample-tally","tuned": tuned, "stale": own.is_none()}),
                text: format!("{}: recorded sample {i} is stored with allocation tally {:?} but its own timed section performed {:?}; the statistics would attribute the former to it", case.describe(), rep.tallies[i], own),
                case: case_json(),
            });
            return;
        }
    }
    // per-input counter values dictated by the inputs of each sample
    let mut counters: [Option<Result<Vec<u64>, u64>>; 4] = [None, None, None, None];
    for kind in [0usize, 1, 2, 3] {
        let registered = input_counter_registered(case.input_counters, kind as u64);
        let constant = case.bencher_counters.iter().rev().find(|c| c.0 == kind).map(|c| c.1).or(case.inherited[kind]);
        let per_sample: Vec<u64> = used
            .iter()
            .map(|sec| {
                let sum: u128 = sec.pre.iter().filter(|(_, e)| e.kind == Kind::Count && e.b == kind as u64).map(|(_, e)| count_value(e.a, kind as u64) as u128).sum();
                (sum / (sec.calls().len().max(1) as u128)) as u64
            })
            .collect();
        counters[kind] = match (registered && case.has_inputs(), constant) {
            (true, None) => Some(Ok(per_sample)),
            (false, Some(c)) => Some(Err(c)),
            (false, None) => None,
            // Both a per-input and a constant counter of one kind were given
            // (inherited ones are overridden by input_counter; for Bencher::counter
            // the statement does not say which wins: see the second reading below).
            (true, Some(_)) => Some(Ok(per_sample)),
        };
    }
    let inp = Inputs { sample_size: rep.sample_size, durations: rep.durations.clone(), tallies: rep.tallies.clone(), counters: counters.clone() };
    match &rep.stats {
        Err(msg) => r.violation(Violation {
            sig: json!({"check":"loop","class":"stats-panic","zero_samples": recorded == 0}),
            text: format!("{}: computing statistics of {recorded} recorded samples panics: {msg}", case.describe()),
            case: case_json(),
        }),
        Ok(st) => {
            let mut verdict = compare(&inp, st);
            // second admissible reading when both counter forms of one kind are present
            if verdict.is_some() {
                let mut alt = inp.clone();
                let mut has_alt = false;
                for kind in [0usize, 1, 2, 3] {
                    let registered = input_counter_registered(case.input_counters, kind as u64);
                    let constant = case.bencher_counters.iter().rev().find(|c| c.0 == kind).map(|c| c.1);
                    if registered && case.has_inputs() {
                        if let Some(c) = constant {
                            alt.counters[kind] = Some(Err(c));
                            has_alt = true;
                        }
                    }
                }
                if has_alt {
                    verdict = compare(&alt, st).and(verdict);
                }
            }
            if let Some((class, text)) = verdict {
                let both = [0usize, 1, 2, 3].iter().any(|&k| input_counter_registered(case.input_counters, k as u64) && case.bencher_counters.iter().any(|c| c.0 == k));
                r.violation(Violation {
                    sig: json!({"check":"loop","class":class,"input_and_constant_counter": both, "counter_after_input": case.counter_after_input && both}),
                    text: format!("{}: recorded samples {:?} ps with per-sample counter values {:?}: {text}", case.describe(), rep.durations, counters),
                    case: case_json(),
                });
            }
        }
    }
}

fn loop_cases(thorough: bool) -> Vec<loopdrv::LoopCase> {
    use loopdrv::*;
    let mut v = Vec::new();
    // cost scripts per round: ties, zero-duration samples, increasing, decreasing
    let scripts: Vec<Vec<u64>> = vec![
        vec![5000], vec![0], vec![3000, 1000, 2000, 1000], vec![1000, 1000, 7000], vec![0, 4000, 0, 4000], vec![9000, 1, 9000, 2, 5],
        vec![101_000, 202_000, 50_000, 303_000],
    ];
    for (entry, ishape, oshape) in [(0, 0, 0), (2, 2, 0), (2, 3, 3), (4, 3, 2), (5, 2, 3)] {
        for script in &scripts {
            for n in [0u32, 1, 2, 3, 4] {
                for s in [Some(1u32), Some(2), Some(3), None] {
                    // Tuning a (nearly) free function doubles the sample size up to
                    // 2^31 calls per round: such scripts are used with explicit sizes only.
                    if s.is_none() && script.iter().any(|c| *c < 1000) {
                        continue;
                    }
                    // a max_time budget that runs out in the middle of tuning (tuned sizes only)
                    let budgets: &[Option<u64>] = if s.is_none() { &[None, Some(20), Some(60)] } else { &[None] };
                    for overhead in [0u64, 3] {
                        for alloc in [0usize, 2, 5, 3, 6] {
                            for counters in 0..10 {
                              for &budget in budgets {
                                if !thorough && counters >= 4 && alloc != 0 {
                                    continue;
                                }
                                // grow-only / free-only samples: the plain counter configurations suffice
                                if (alloc == 3 || alloc == 6) && (counters >= 2 || overhead != 0) {
                                    continue;
                                }
                                if !thorough && budget.is_some() && (counters >= 2 || overhead != 0) {
                                    continue;
                                }
                                let mut c = LoopCase::basic(entry, ishape, oshape);
                                c.max_time_ns = budget;
                                c.sample_count = Some(n);
                                c.sample_size = s;
                                c.cost[SITE_CALL] = script.clone();
                                c.cost[SITE_GEN] = vec![700];
                                c.overhead_ps = [overhead, overhead * 2, overhead, overhead * 3];
                                c.alloc[SITE_CALL] = alloc;
                                c.alloc[SITE_GEN] = if alloc == 0 { 0 } else { 1 };
                                // lazily initialised state: allocations only in the first rounds
                                // (with a tuned size these are the discarded ones)
                                c.alloc_until_round = if alloc == 5 { Some(2) } else { None };
                                c.horizon = 2000;
                                match counters {
                                    0 => {}
                                    1 => c.inherited = [Some(11), Some(12), None, Some(14)],
                                    2 => c.input_counters = if entry >= 2 { 3 } else { 0 },
                                    3 => {
                                        c.input_counters = if entry >= 2 { 1 } else { 0 };
                                        c.inherited = [Some(11), None, None, None];
                                    }
                                    6 => {
                                        // per-input counters of all four kinds; chars and cycles also inherited
                                        c.input_counters = if entry >= 2 { 15 } else { 0 };
                                        c.inherited = [None, Some(21), Some(22), None];
                                    }
                                    7 => {
                                        // Bencher::counter over an inherited constant of its kind (another value);
                                        // the other inherited kinds stay
                                        c.inherited = [Some(11), Some(12), None, Some(14)];
                                        c.bencher_counters = vec![(0, 5)];
                                    }
                                    8 => {
                                        // two Bencher::counter calls of one kind in a row: the later one counts
                                        c.bencher_counters = vec![(3, 5), (3, 9)];
                                    }
                                    9 => {
                                        c.inherited = [Some(11), None, Some(13), None];
                                        c.bencher_counters = vec![(0, 5), (1, 3), (0, 7)];
                                    }
                                    4 => {
                                        // counter() then input_counter() of the same kind
                                        c.input_counters = if entry >= 2 { 1 } else { 0 };
                                        c.bencher_counters = vec![(0, 5)];
                                        c.counter_after_input = false;
                                    }
                                    _ => {
                                        // input_counter() then counter() of the same kind
                                        c.input_counters = if entry >= 2 { 1 } else { 0 };
                                        c.bencher_counters = vec![(0, 5)];
                                        c.counter_after_input = true;
                                    }
                                }
                                if entry < 2 && (counters == 2 || counters == 3 || counters == 6) {
                                    continue;
                                }
                                v.push(c);
                              }
                            }
                        }
                    }
                }
            }
        }
    }
    // several threads of which only some allocate (and which take different times): every stored sample
    // must pair the duration and the allocation figures of one and the same thread's timed section
    for (entry, ishape, oshape) in [(0, 0, 0), (2, 3, 3), (4, 3, 2)] {
        for threads in [2usize, 3] {
            for mask in 1u32..(1 << threads) {
                for n in [2u32, 4] {
                    for s in [1u32, 2] {
                        for alloc in [2usize, 3, 6] {
                            for skew in [0u64, 2000] {
                                if !thorough && (threads == 3 && (s == 2 || alloc == 3)) {
                                    continue;
                                }
                                let mut c = LoopCase::basic(entry, ishape, oshape);
                                c.threads = threads;
                                c.alloc_threads = if mask == (1 << threads) - 1 { None } else { Some(mask) };
                                c.sample_count = Some(n);
                                c.sample_size = Some(s);
                                c.cost[SITE_CALL] = vec![3000, 1000, 2000];
                                c.thread_skew = skew;
                                c.alloc[SITE_CALL] = alloc;
                                c.horizon = 2000;
                                v.push(c);
                            }
                        }
                    }
                }
            }
        }
    }
    v
}

fn main() {
    let cli = Cli::parse();
    mc_seq::quiet_panics();
    let r = Report::new("c05", &cli);
    if let Some(case) = &cli.case {
        if case["kind"] == "injected" {
            check_injected(&r, &inputs_from(case));
            r.case(1);
        } else {
            let c: loopdrv::LoopCase = serde_json::from_value(case["case"].clone()).unwrap();
            check_loop(&r, &c, 0);
        }
        r.emit();
    }
    let which = cli.sub.first().map(|s| s.as_str()).unwrap_or("all");

    if which == "all" || which == "injected" {
        // (a) all duration sequences of length 0..=5 (6 thorough uses fewer extras)
        let max_len = if cli.thorough { 6usize } else { 5 };
        let mut seqs: Vec<Vec<u128>> = vec![vec![]];
        let mut level: Vec<Vec<u128>> = vec![vec![]];
        for _ in 0..max_len {
            let mut next = Vec::new();
            for s in &level {
                for d in DURS {
                    let mut s2 = s.clone();
                    s2.push(d);
                    next.push(s2);
                }
            }
            seqs.extend(next.iter().cloned());
            level = next;
        }
        let counter_modes = if cli.thorough { 13 } else { 4 };
        let total = seqs.len() as u64 * SIZES.len() as u64 * MASKS.len() as u64 * counter_modes;
        par_for(total, |i| {
            if !cli.mine(i) {
                return;
            }
            let mut x = i;
            let cm = (x % counter_modes) as usize;
            x /= counter_modes;
            let mask = MASKS[(x % MASKS.len() as u64) as usize];
            x /= MASKS.len() as u64;
            let size = SIZES[(x % SIZES.len() as u64) as usize];
            x /= SIZES.len() as u64;
            let durations = seqs[x as usize].clone();
            let n = durations.len();
            // counter modes: 0 none; otherwise (kind, style) with style constant / per-sample distinct values /
            // per-sample values with plateaus (runs of equal counts first, a different count later, the first value
            // again after that); quick: the bytes kind, thorough: all four kinds
            let mut counters: [Option<Result<Vec<u64>, u64>>; 4] = [None, None, None, None];
            if cm > 0 {
                let (kind, style) = ((cm - 1) / 3, (cm - 1) % 3);
                counters[kind] = match style {
                    0 => Some(Err(77)),
                    1 => Some(Ok((0..n).map(counter_for).collect())),
                    _ => Some(Ok((0..n).map(|k| [500u64, 500, 900, 900, 500, 700][k % 6]).collect())),
                };
            }
            let inp = Inputs {
                sample_size: size,
                tallies: (0..n).map(|k| if mask & (1 << k) != 0 { Some(tally_for(k)) } else { None }).collect(),
                durations,
                counters,
            };
            check_injected(&r, &inp);
            r.case(n as u64 + 1);
            r.sample(i, || inputs_json(&inp));
        });
    }
    if which == "all" || which == "injected" {
        // (b) larger collections (the default sample count is 100): n distinct or pairwise tied durations
        // in every arrangement of a family of orders - ascending, descending, organ pipe, and every
        // stride permutation i -> i * k mod n (k coprime to n) - each sample with its own tally and
        // counter value, so that the figures under fastest / slowest / median must follow the sample
        let mut ns: Vec<usize> = (6..=40).collect();
        ns.extend([63, 64, 99, 100, 101, 128]);
        if cli.thorough {
            ns.extend(41..=62);
            ns.extend(65..=98);
            ns.extend([200, 255, 256, 257, 511, 512, 513, 1000, 1024]);
        }
        let mut large: Vec<(usize, usize, u8)> = Vec::new(); // (n, order id, value mode)
        for &n in &ns {
            let strides: Vec<usize> = (1..n).filter(|k| gcd(*k, n) == 1).collect();
            for order in 0..strides.len() + 2 {
                for mode in [0u8, 1] {
                    large.push((n, order, mode));
                }
            }
        }
        par_for(large.len() as u64, |i| {
            if !cli.mine(i) {
                return;
            }
            let (n, order, mode) = large[i as usize];
            let strides: Vec<usize> = (1..n).filter(|k| gcd(*k, n) == 1).collect();
            let rank: Vec<usize> = if order < strides.len() {
                (0..n).map(|j| j * strides[order] % n).collect()
            } else if order == strides.len() {
                (0..n).rev().collect()
            } else {
                // organ pipe: 0, 2, 4, ..., 5, 3, 1
                (0..n).map(|j| if j < (n + 1) / 2 { 2 * j } else { 2 * (n - 1 - j) + 1 }).collect()
            };
            let durations: Vec<u128> = rank.iter().map(|&k| 1000 + 37 * (if mode == 0 { k } else { k / 2 }) as u128).collect();
            let inp = Inputs {
                sample_size: 3,
                tallies: (0..n).map(|k| Some(tally_for(k))).collect(),
                durations,
                counters: [Some(Ok((0..n).map(counter_for).collect())), None, None, Some(Err(5))],
            };
            check_injected(&r, &inp);
            r.case(n as u64 + 1);
        });
        r.force_sample(json!({"large_collections": large.len(), "sizes": ns}));
        // (b') every permutation of n distinct (and of n pairwise tied) durations, n = 6, 7 (thorough: 8, 9):
        // the figures attached to a sample must follow it through every order, not only through a family
        let perm_ns: &[usize] = if cli.thorough { &[6, 7, 8, 9] } else { &[6, 7] };
        let mut perm_total = 0u64;
        for &n in perm_ns {
            let fact: u64 = (1..=n as u64).product();
            perm_total += 2 * fact;
            par_for(2 * fact, |i| {
                if !cli.mine(i) {
                    return;
                }
                let mode = (i % 2) as u8;
                // Lehmer code -> permutation
                let mut code = i / 2;
                let mut pool: Vec<usize> = (0..n).collect();
                let mut rank = Vec::with_capacity(n);
                for k in (1..=n as u64).rev() {
                    let f: u64 = (1..k).product();
                    let idx = (code / f) as usize;
                    code %= f;
                    rank.push(pool.remove(idx));
                }
                let durations: Vec<u128> = rank.iter().map(|&k| 1000 + 37 * (if mode == 0 { k } else { k / 2 }) as u128).collect();
                let inp = Inputs {
                    sample_size: 2,
                    tallies: (0..n).map(|k| if k % 3 != 2 { Some(tally_for(k)) } else { None }).collect(),
                    durations,
                    counters: [None, Some(Ok((0..n).map(counter_for).collect())), Some(Err(9)), None],
                };
                check_injected(&r, &inp);
                r.case(n as u64 + 1);
            });
        }
        r.force_sample(json!({"all_permutations_of": perm_ns, "collections": perm_total}));
    }
    if which == "all" || which == "loop" {
        let cases = loop_cases(cli.thorough);
        for (i, c) in cases.iter().enumerate() {
            if cli.mine(i as u64) {
                check_loop(&r, c, i as u64);
            }
        }
        r.force_sample(json!({"loop_cases": cases.len()}));
    }
    r.set_bounds(json!({
        "large_collections": "n in 6..=40, 63, 64, 99, 100, 101, 128 (thorough: ..=101, 200, 255..257, 511..513, 1000, 1024) x {ascending via strides, descending, organ pipe, every stride permutation} x {distinct, pairwise tied}",
        "injected": {"durations_ps": DURS.iter().map(|d| d.to_string()).collect::<Vec<_>>(), "max_len": if cli.thorough {6} else {5}, "all_permutations_n": if cli.thorough {"6..=9"} else {"6, 7"}, "sample_sizes": SIZES, "tally_presence_masks": MASKS, "counter_modes": if cli.thorough {13} else {4}},
        "loop": {"entries": 5, "cost_scripts": 7, "sample_counts": [0,1,2,3,4], "sample_sizes": [1,2,3,"tuned"], "overheads_ps": [0,3], "alloc_scripts": 3, "counter_setups": 10}
    }));
    r.emit();
}
