//! C15 — options resolve per field: run time over benchmark over innermost group.
//!
//! Function level: the real `BenchOptions::overwrite` folded exactly the way the
//! runner descends the tree (outer group, ..., benchmark, then the runner on
//! top), pairwise-exhaustive over fields x levels; `Bencher::counter` against
//! inherited counters through the real loop; thread-list normalisation.

#[path = "../../../common/loopdrv.rs"]
mod loopdrv;

use divan::__private::{BenchOptions, IntoThreads};
use divan::verif;
use mc_seq::{Cli, Report, Violation};
use serde_json::json;
use std::borrow::Cow;
use std::time::Duration;

const FIELDS: [&str; 11] = [
    "sample_count", "sample_size", "threads", "min_time", "max_time", "skip_ext_time", "ignore", "bytes_count",
    "chars_count", "cycles_count", "items_count",
];
/// Priority order, highest first.
const LEVELS: [&str; 5] = ["runner", "benchmark", "group_inner", "group_mid", "group_outer"];

/// The level-specific value of a field, as a comparable integer.
/// 0: every level sets an ordinary value; 1 / 2: the odd / even levels set the field's *degenerate* value instead -
/// an empty thread list, zero samples, a zero duration, a zero count, `false`: values that are set all the same and
/// must win over an ordinary value further out (a test for "is it set" must look at the Option, not at the value).
static MODE: std::sync::atomic::AtomicU8 = std::sync::atomic::AtomicU8::new(0);
const EMPTY_LIST: u64 = u64::MAX;

fn value(field: usize, level: usize) -> u64 {
    let mode = MODE.load(std::sync::atomic::Ordering::Relaxed);
    if mode != 0 && level % 2 == (mode as usize) % 2 {
        return if field == 2 { EMPTY_LIST } else { 0 };
    }
    match field {
        5 | 6 => (level % 2) as u64, // booleans: alternate so that neighbours differ
        _ => 10 * (field as u64 + 1) + level as u64 + 1,
    }
}

fn set(o: &mut BenchOptions<'static>, field: usize, v: u64) {
    match field {
        0 => o.sample_count = Some(v as u32),
        1 => o.sample_size = Some(v as u32),
        2 => o.threads = Some(Cow::Owned(if v == EMPTY_LIST { Vec::new() } else { vec![v as usize, 1] })),
        3 => o.min_time = Some(Duration::from_millis(v)),
        4 => o.max_time = Some(Duration::from_millis(v)),
        5 => o.skip_ext_time = Some(v == 1),
        6 => o.ignore = Some(v == 1),
        k => verif::counter_set_insert(&mut o.counters, k - 7, v),
    }
}

fn get(o: &BenchOptions<'static>, field: usize) -> Option<u64> {
    match field {
        0 => o.sample_count.map(|v| v as u64),
        1 => o.sample_size.map(|v| v as u64),
        2 => o.threads.as_ref().map(|t| {
            if t.is_empty() {
                return EMPTY_LIST;
            }
            assert_eq!(t.len(), 2);
            assert_eq!(t[1], 1);
            t[0] as u64
        }),
        3 => o.min_time.map(|d| d.as_millis() as u64),
        4 => o.max_time.map(|d| d.as_millis() as u64),
        5 => o.skip_ext_time.map(|b| b as u64),
        6 => o.ignore.map(|b| b as u64),
        k => verif::counter_set_get(&o.counters, k - 7),
    }
}

/// assignment[level] = bitmask of fields set at that level
fn resolve(assignment: &[u16; 5]) -> BenchOptions<'static> {
    let level_options: Vec<Option<BenchOptions<'static>>> = (0..5)
        .map(|level| {
            if assignment[level] == 0 && level >= 2 {
                // a group or benchmark without options carries none at all
                return None;
            }
            let mut o = BenchOptions::default();
            for f in 0..FIELDS.len() {
                if assignment[level] & (1 << f) != 0 {
                    set(&mut o, f, value(f, level));
                }
            }
            Some(o)
        })
        .collect();
    // Descend: outer group first, child over parent (`run_tree`) ...
    let mut acc: Option<BenchOptions<'static>> = None;
    for level in (1..5).rev() {
        acc = match (acc, &level_options[level]) {
            (None, None) => None,
            (Some(p), None) => Some(p),
            (None, Some(c)) => Some(c.clone()),
            (Some(p), Some(c)) => Some(verif::options_overwrite(c, &p)),
        };
    }
    // ... then the runner's options on top (`run_bench_entry`).
    let runner = level_options[0].clone().unwrap_or_default();
    match acc {
        None => runner,
        Some(entry) => verif::options_overwrite(&runner, &entry),
    }
}

fn check_assignment(r: &Report, assignment: &[u16; 5]) {
    let eff = resolve(assignment);
    for f in 0..FIELDS.len() {
        let want = (0..5).find(|&l| assignment[l] & (1 << f) != 0).map(|l| value(f, l));
        let got = get(&eff, f);
        if got != want {
            let winner = (0..5).find(|&l| assignment[l] & (1 << f) != 0);
            r.violation(Violation {
                sig: json!({"check":"overwrite","field":FIELDS[f]}),
                text: format!(
                    "option {} resolves to {got:?}; it is set at levels {:?} so the {} value {want:?} must win (assignment per level {:?})",
                    FIELDS[f],
                    (0..5).filter(|&l| assignment[l] & (1 << f) != 0).map(|l| LEVELS[l]).collect::<Vec<_>>(),
                    winner.map_or("default (unset)", |l| LEVELS[l]),
                    assignment.iter().map(|m| (0..FIELDS.len()).filter(|f| m & (1 << f) != 0).map(|f| FIELDS[f]).collect::<Vec<_>>()).collect::<Vec<_>>()
                ),
                case: json!({"kind":"assignment","levels":assignment,"mode":MODE.load(std::sync::atomic::Ordering::Relaxed)}),
            });
        }
    }
}

fn check_counters(r: &Report, inherited: [Option<u64>; 4], calls: &[(usize, u64)]) {
    use loopdrv::*;
    let mut case = LoopCase::basic(0, 0, 0);
    case.sample_count = Some(2);
    case.inherited = inherited;
    case.bencher_counters = calls.to_vec();
    let out = run_case(&case);
    let Some(rep) = out.report else {
        r.violation(Violation { sig: json!({"check":"bencher_counter","class":"panic"}), text: format!("run with inherited counters {inherited:?} and Bencher::counter calls {calls:?} panicked: {:?}", out.panic), case: json!({"kind":"counters","inherited":inherited,"calls":calls}) });
        return;
    };
    let mut want = inherited;
    for &(kind, v) in calls {
        want[kind] = Some(v);
    }
    let got: Vec<Option<u64>> = match &rep.stats {
        Ok(st) => st.counts.iter().map(|c| c.map(|c| c[0])).collect(),
        Err(e) => {
            r.violation(Violation { sig: json!({"check":"bencher_counter","class":"stats-panic"}), text: format!("statistics panicked: {e}"), case: json!({"kind":"counters","inherited":inherited,"calls":calls}) });
            return;
        }
    };
    if got != want.to_vec() {
        r.violation(Violation {
            sig: json!({"check":"bencher_counter","class":"wrong-kind"}),
            text: format!("inherited counters {inherited:?} (bytes, chars, cycles, items) + Bencher::counter calls {calls:?} (kind index, value) report {got:?}; a counter must replace only the inherited counter of its own kind: {want:?}"),
            case: json!({"kind":"counters","inherited":inherited,"calls":calls}),
        });
    }
}

fn check_threads(r: &Report, list: &[usize]) {
    let got: Vec<usize> = IntoThreads::into_threads(list.to_vec()).into_owned();
    let mut want = list.to_vec();
    want.sort_unstable();
    want.dedup();
    if got != want {
        r.violation(Violation {
            sig: json!({"check":"into_threads"}),
            text: format!("threads = {list:?} normalises to {got:?}, expected sorted and de-duplicated {want:?}"),
            case: json!({"kind":"threads","list":list}),
        });
    }
}

fn main() {
    let cli = Cli::parse();
    mc_seq::quiet_panics();
    let r = Report::new("c15", &cli);
    if let Some(case) = &cli.case {
        match case["kind"].as_str().unwrap() {
            "assignment" => {
                let l: Vec<u16> = case["levels"].as_array().unwrap().iter().map(|v| v.as_u64().unwrap() as u16).collect();
                MODE.store(case["mode"].as_u64().unwrap_or(0) as u8, std::sync::atomic::Ordering::Relaxed);
                check_assignment(&r, &[l[0], l[1], l[2], l[3], l[4]]);
            }
            "counters" => {
                let inh: Vec<Option<u64>> = case["inherited"].as_array().unwrap().iter().map(|v| v.as_u64()).collect();
                let calls: Vec<(usize, u64)> = case["calls"].as_array().unwrap().iter().map(|c| (c[0].as_u64().unwrap() as usize, c[1].as_u64().unwrap())).collect();
                check_counters(&r, [inh[0], inh[1], inh[2], inh[3]], &calls);
            }
            _ => {
                let l: Vec<usize> = case["list"].as_array().unwrap().iter().map(|v| v.as_u64().unwrap() as usize).collect();
                check_threads(&r, &l);
            }
        }
        r.case(1);
        r.emit();
    }

    let nf = FIELDS.len();
    let mut index = 0u64;
    // pairwise-exhaustive: every unordered pair of fields (incl. f = g: one field alone),
    // every {unset, set} pattern over the 5 levels for both
    for mode in 0u8..3 {
      MODE.store(mode, std::sync::atomic::Ordering::Relaxed);
      for f in 0..nf {
        for g in f..nf {
            for pf in 0u16..32 {
                for pg in 0u16..32 {
                    if f == g && pf != pg {
                        continue;
                    }
                    index += 1;
                    if !cli.mine(index) {
                        continue;
                    }
                    let mut a = [0u16; 5];
                    for l in 0..5 {
                        if pf & (1 << l) != 0 {
                            a[l] |= 1 << f;
                        }
                        if pg & (1 << l) != 0 {
                            a[l] |= 1 << g;
                        }
                    }
                    check_assignment(&r, &a);
                    r.case(5);
                    r.outcome(format!("{f}:{g}:{:?}", (0..5).find(|&l| a[l] & (1 << f) != 0)));
                    r.sample(index, || json!({"fields": [FIELDS[f], FIELDS[g]], "levels_setting_first": pf, "levels_setting_second": pg, "degenerate_values_at": (["no level", "odd levels", "even levels"][mode as usize])}));
                }
            }
        }
      }
    }
    MODE.store(0, std::sync::atomic::Ordering::Relaxed);
    // all fields at exactly one level, all fields everywhere, nothing anywhere,
    // each level complete with each other level complete (thorough: all subsets of levels complete)
    let full: u16 = (1 << nf) - 1;
    for mask in 0u16..32 {
        let a: [u16; 5] = std::array::from_fn(|l| if mask & (1 << l) != 0 { full } else { 0 });
        check_assignment(&r, &a);
        r.case(5);
    }
    // triples of fields at three levels (thorough)
    if cli.thorough {
        for f in 0..nf {
            for g in (f + 1)..nf {
                for h in (g + 1)..nf {
                    for lf in 0..5 {
                        for lg in 0..5 {
                            for lh in 0..5 {
                                let mut a = [0u16; 5];
                                a[lf] |= 1 << f;
                                a[lg] |= 1 << g;
                                a[lh] |= 1 << h;
                                check_assignment(&r, &a);
                                r.case(5);
                            }
                        }
                    }
                }
            }
        }
    }
    // Bencher::counter against inherited counters (kinds reachable through the
    // driver: bytes = 0, items = 3), sequences of depth <= 2
    if cli.part.0 == 0 {
        let inh_values: [Option<u64>; 2] = [None, Some(5)];
        for b in inh_values {
            for c in inh_values {
                for y in inh_values {
                    for i in inh_values {
                        let inherited = [b, c.map(|v| v + 1), y.map(|v| v + 2), i.map(|v| v + 3)];
                        let calls: Vec<Vec<(usize, u64)>> = vec![
                            vec![], vec![(0, 100)], vec![(3, 200)], vec![(0, 100), (3, 200)], vec![(3, 200), (0, 100)],
                            vec![(0, 100), (0, 101)], vec![(3, 200), (3, 201)],
                        ];
                        for seq in &calls {
                            check_counters(&r, inherited, seq);
                            r.case(2);
                        }
                    }
                }
            }
        }
        // thread lists
        let ncpu = verif::known_parallelism();
        let alphabet = [0usize, 1, 2, ncpu];
        let mut lists: Vec<Vec<usize>> = vec![vec![]];
        for a in alphabet {
            lists.push(vec![a]);
            for b in alphabet {
                lists.push(vec![a, b]);
                for c in alphabet {
                    lists.push(vec![a, b, c]);
                }
            }
        }
        for l in &lists {
            check_threads(&r, l);
            r.case(1);
        }
        r.force_sample(json!({"thread_lists": lists.len(), "available_parallelism": ncpu}));
    }
    r.set_bounds(json!({
        "fields": FIELDS, "levels": LEVELS, "pairwise": "every unordered field pair x every {unset,set}^5 pattern for both (1024 per pair) + single fields",
        "value_modes": "ordinary values at every level; degenerate values (empty thread list, 0 samples, zero duration, zero count, false) at the odd levels; at the even levels", "complete_levels": "all 32 subsets of levels with every field set", "triples": if cli.thorough {"all field triples at all level triples"} else {"thorough only"},
        "bencher_counter_sequences": 7, "inherited_patterns": 16, "thread_lists": "all lists of length <= 3 over {0,1,2,N_cpu}"
    }));
    r.emit();
}
