//! C13 — a benchmark case runs iff its full display path passes the filters.
//!
//!  (i)  FilterSet as a state machine: every operation sequence include(f) /
//!       exclude(f) up to a depth (every insertion order: SplitVec moves
//!       elements), invariant `is_match(p) == reference(p)` for every path of the
//!       path alphabet in every reached state.
//!  (ii) EntryTree::retain on small trees (benches, args benches, groups with
//!       custom display names): retained leaves / arguments = reference selection
//!       per case, parents present iff a selected case lies below.

use divan::__private::{BenchArgs, BenchEntry, BenchEntryRunner, EntryLocation, EntryMeta, GroupEntry};
use divan::verif::{self, Filters, NodeMirror};
use mc_seq::{Cli, Report, Violation};
use regex_lite::Regex;
use serde_json::json;
use std::collections::BTreeSet;

/// (pattern, exact)
const FILTERS: [(&str, bool); 10] = [
    ("a", false),
    ("^c::m", false),
    ("x$", false),
    ("a.*1", false),
    ("m::(x|y)", false),
    ("c::m::x", true),
    ("c::m", true),
    ("nothing_like_this", true),
    ("::2$", false),
    ("c::args::10", true),
];

fn paths() -> Vec<String> {
    let mut v = Vec::new();
    for root in ["c", "cc"] {
        for m in ["", "m", "n", "m::k"] {
            for leaf in ["x", "y", "a1", "bax", "args::1", "args::10", "args::2", "G<4>", "t::8"] {
                if m.is_empty() {
                    v.push(format!("{root}::{leaf}"));
                } else {
                    v.push(format!("{root}::{m}::{leaf}"));
                }
            }
        }
    }
    v.extend(["x".to_owned(), "c".to_owned(), "c::m".to_owned(), "".to_owned(), "a".to_owned()]);
    v
}

#[derive(Clone, Copy, Debug, PartialEq, Eq, PartialOrd, Ord)]
struct FilterOp {
    filter: usize,
    include: bool,
}

fn reference_match(ops: &[FilterOp], regexes: &[Option<Regex>], path: &str) -> bool {
    let hit = |f: usize| match &regexes[f] {
        Some(re) => re.is_match(path),
        None => FILTERS[f].0 == path,
    };
    let skip = ops.iter().any(|o| !o.include && hit(o.filter));
    let positives: Vec<&FilterOp> = ops.iter().filter(|o| o.include).collect();
    !skip && (positives.is_empty() || positives.iter().any(|o| hit(o.filter)))
}

fn build_filters(ops: &[FilterOp], reserve: bool) -> Filters {
    let mut f = Filters::new();
    if reserve {
        f.reserve_exact(ops.len());
    }
    for o in ops {
        let (pat, exact) = FILTERS[o.filter];
        if o.include {
            f.include(pat, exact);
        } else {
            f.exclude(pat, exact);
        }
    }
    f
}

fn ops_json(ops: &[FilterOp]) -> serde_json::Value {
    json!(ops.iter().map(|o| json!({"op": if o.include {"include"} else {"exclude"}, "pattern": FILTERS[o.filter].0, "exact": FILTERS[o.filter].1})).collect::<Vec<_>>())
}

fn ops_from(v: &serde_json::Value) -> Vec<FilterOp> {
    v.as_array()
        .unwrap()
        .iter()
        .map(|o| FilterOp {
            include: o["op"] == "include",
            filter: FILTERS.iter().position(|f| f.0 == o["pattern"].as_str().unwrap() && f.1 == o["exact"].as_bool().unwrap()).unwrap(),
        })
        .collect()
}

fn check_state(r: &Report, ops: &[FilterOp], regexes: &[Option<Regex>], paths: &[String]) -> bool {
    let mut ok = true;
    for reserve in [false, true] {
        let f = build_filters(ops, reserve);
        for p in paths {
            let got = f.is_match(p);
            let want = reference_match(ops, regexes, p);
            if got != want {
                let n_skip = ops.iter().filter(|o| !o.include).count();
                let n_pos = ops.len() - n_skip;
                r.violation(Violation {
                    sig: json!({"check":"filter_set","skips":n_skip.min(2),"positives":n_pos.min(2),"got":got}),
                    text: format!(
                        "filters {} : path {p:?} is {} but the rule (no skip matches, and a positive matches or there is none) says {}",
                        ops_json(ops), if got {"selected"} else {"rejected"}, if want {"selected"} else {"rejected"}
                    ),
                    case: json!({"kind":"filters","ops":ops_json(ops),"path":p}),
                });
                ok = false;
            }
        }
    }
    ok
}

// ------------------------------------------------------------------ (ii) trees

fn plain(_: divan::Bencher) {}

fn leak(s: &str) -> &'static str {
    Box::leak(s.to_owned().into_boxed_str())
}

fn meta(display: &str, raw: &str, module_path: &str, line: u32) -> EntryMeta {
    EntryMeta {
        display_name: leak(display),
        raw_name: leak(raw),
        module_path: leak(module_path),
        location: EntryLocation { file: "zoo.rs", line, col: 1 },
        bench_options: None,
    }
}

static ARGS3: BenchArgs = BenchArgs::new();
static ARGS0: BenchArgs = BenchArgs::new();

#[derive(Clone, Debug)]
struct Item {
    /// 0 bench, 1 args bench (labels 1, 10, 2), 2 bench inside a group with a custom display name
    kind: u8,
    module: &'static str,
    name: &'static str,
}

const ITEMS: [Item; 10] = [
    // (kind 3: a benchmark whose argument list is empty - it has no case and is never shown; it is
    // registered ahead of its siblings, so that whatever the walk keeps per node is stale or not)
    Item { kind: 3, module: "c", name: "e0" },
    Item { kind: 0, module: "c", name: "x" },
    Item { kind: 3, module: "c::m", name: "e0" },
    Item { kind: 0, module: "c::m", name: "x" },
    Item { kind: 0, module: "c::m", name: "y" },
    Item { kind: 1, module: "c", name: "args" },
    Item { kind: 1, module: "c::m", name: "args" },
    Item { kind: 2, module: "c::grp", name: "a1" }, // group `grp` displayed as "n"
    Item { kind: 0, module: "c::m::k", name: "bax" },
    Item { kind: 0, module: "cc", name: "a1" },
];

fn build_tree(items: &[&Item]) -> (Vec<&'static BenchEntry>, Vec<&'static GroupEntry>, Vec<String>) {
    let mut benches = Vec::new();
    let mut groups: Vec<&'static GroupEntry> = Vec::new();
    let mut cases = Vec::new();
    for (i, it) in items.iter().enumerate() {
        let display_module = it.module.replace("grp", "n");
        match it.kind {
            1 => {
                benches.push(&*Box::leak(Box::new(BenchEntry {
                    meta: meta(it.name, it.name, it.module, 10 + i as u32),
                    bench: BenchEntryRunner::Args(|| ARGS3.runner(|| ["1", "10", "2"], |s| s.to_string(), |_, _| {})),
                })));
                for a in ["1", "10", "2"] {
                    cases.push(format!("{display_module}::{}::{a}", it.name));
                }
            }
            3 => {
                benches.push(&*Box::leak(Box::new(BenchEntry {
                    meta: meta(it.name, it.name, it.module, 10 + i as u32),
                    bench: BenchEntryRunner::Args(|| ARGS0.runner(|| [] as [&str; 0], |s| s.to_string(), |_, _| {})),
                })));
            }
            _ => {
                benches.push(&*Box::leak(Box::new(BenchEntry {
                    meta: meta(it.name, it.name, it.module, 10 + i as u32),
                    bench: BenchEntryRunner::Plain(plain),
                })));
                cases.push(format!("{display_module}::{}", it.name));
            }
        }
        if it.kind == 2 && groups.is_empty() {
            groups.push(Box::leak(Box::new(GroupEntry { meta: meta("n", "grp", "c", 5), generic_benches: None })));
        }
    }
    (benches, groups, cases)
}

fn collect(nodes: &[NodeMirror], parent: &str, leaves: &mut BTreeSet<String>, parents: &mut BTreeSet<String>) {
    for n in nodes {
        let path = if parent.is_empty() { n.display_name.clone() } else { format!("{parent}::{}", n.display_name) };
        if n.is_leaf {
            match &n.args {
                Some(args) => {
                    for (a, _) in args {
                        leaves.insert(format!("{path}::{a}"));
                    }
                    if args.is_empty() {
                        leaves.insert(format!("{path}::<no arguments left>"));
                    }
                }
                None => {
                    leaves.insert(path.clone());
                }
            }
        } else {
            parents.insert(path.clone());
            if n.children.is_empty() {
                leaves.insert(format!("{path}::<empty parent>"));
            }
            collect(&n.children, &path, leaves, parents);
        }
    }
}

fn check_tree(r: &Report, items: &[&Item], ops: &[FilterOp], regexes: &[Option<Regex>]) {
    let (benches, groups, cases) = build_tree(items);
    let filters = build_filters(ops, false);
    let tree = verif::tree(&benches, &groups, Some(&filters), None);
    let (mut leaves, mut parents) = (BTreeSet::new(), BTreeSet::new());
    collect(&tree, "", &mut leaves, &mut parents);
    let want: BTreeSet<String> = cases.iter().filter(|c| reference_match(ops, regexes, c)).cloned().collect();
    let mut want_parents = BTreeSet::new();
    for c in &want {
        let parts: Vec<&str> = c.split("::").collect();
        // module / group nodes: every proper prefix down to the benchmark itself
        // when it has arguments (the benchmark row is then a leaf carrying args)
        let is_arg = items.iter().any(|it| it.kind == 1 && c.starts_with(&format!("{}::{}::", it.module.replace("grp", "n"), it.name)));
        let depth = if is_arg { parts.len() - 2 } else { parts.len() - 1 };
        for k in 1..=depth {
            want_parents.insert(parts[..k].join("::"));
        }
    }
    let case = || {
        json!({"kind":"tree","items": items.iter().map(|it| json!([it.kind, it.module, it.name])).collect::<Vec<_>>(), "ops": ops_json(ops)})
    };
    if leaves != want {
        let extra: Vec<&String> = leaves.difference(&want).collect();
        let missing: Vec<&String> = want.difference(&leaves).collect();
        r.violation(Violation {
            sig: json!({"check":"retain","class": if !extra.is_empty() {"extra-case"} else {"missing-case"}, "arg": extra.iter().chain(missing.iter()).any(|p| p.contains("args::"))}),
            text: format!("filters {} on cases {cases:?}: retained {leaves:?}, the rule selects {want:?}", ops_json(ops)),
            case: case(),
        });
    } else if parents != want_parents {
        r.violation(Violation {
            sig: json!({"check":"retain","class":"parents"}),
            text: format!("filters {} on cases {cases:?}: module/group nodes shown {parents:?}, but selected cases lie below exactly {want_parents:?}", ops_json(ops)),
            case: case(),
        });
    }
}

/// C12, order independence: the tree built from every permutation of the bench
/// list and of the group list (constructor / link order) sorts to the same tree.
fn permutations<T: Clone>(v: &[T]) -> Vec<Vec<T>> {
    if v.len() <= 1 {
        return vec![v.to_vec()];
    }
    let mut out = Vec::new();
    for i in 0..v.len() {
        let mut rest = v.to_vec();
        let x = rest.remove(i);
        for mut p in permutations(&rest) {
            p.insert(0, x.clone());
            out.push(p);
        }
    }
    out
}

fn strip_addrs(nodes: &mut Vec<NodeMirror>) {
    for n in nodes {
        n.entry_addr = None;
        strip_addrs(&mut n.children);
    }
}

fn check_permutations(cli: &Cli, r: &Report) {
    let max_items = if cli.thorough { 6 } else { 5 };
    let mut index = 0u64;
    for mask in 1u32..(1 << ITEMS.len()) {
        if mask.count_ones() as usize > max_items || mask.count_ones() < 2 {
            continue;
        }
        index += 1;
        if !cli.mine(index) {
            continue;
        }
        let items: Vec<&Item> = (0..ITEMS.len()).filter(|i| mask & (1 << i) != 0).map(|i| &ITEMS[i]).collect();
        let (benches, mut groups, _) = build_tree(&items);
        // a second group so that the group list has an order too
        if items.iter().any(|it| it.module.starts_with("c::m")) {
            groups.push(Box::leak(Box::new(GroupEntry { meta: meta("m", "m", "c", 6), generic_benches: None })));
        }
        for attr in 0u8..3 {
            let mut reference = verif::tree(&benches, &groups, None, Some((attr, false)));
            strip_addrs(&mut reference);
            for pb in permutations(&benches) {
                for pg in permutations(&groups) {
                    let mut t = verif::tree(&pb, &pg, None, Some((attr, false)));
                    strip_addrs(&mut t);
                    r.case(1);
                    if t != reference {
                        r.violation(Violation {
                            sig: json!({"check":"order-independence","attr":attr}),
                            text: format!("the tree built from entries registered in the order {:?} differs from the one built in declaration order (sort attribute {attr})", pb.iter().map(|b| format!("{}::{}", b.meta.module_path, b.meta.raw_name)).collect::<Vec<_>>()),
                            case: json!({"kind":"perm","items": items.iter().map(|it| json!([it.kind, it.module, it.name])).collect::<Vec<_>>()}),
                        });
                    }
                }
            }
        }
    }
    r.set_bounds(json!({"items": ITEMS.len(), "max_items_per_set": max_items, "permutations": "every permutation of the bench entry list x every permutation of the group list, 3 sort attributes"}));
}

// ---------------------------------------------------------------- C17, labels of an argument list (function level)
//
// Every list of <= 4 values over {1, 2, 3} (integers, rendered through ToString) and over {"a", "b"} (owned
// strings): repeated and adjacent equal values included. The names a benchmark registers for its arguments must be
// the renderings of the values, one per value and in their order, and each name must lead back to its own position
// (the index the runner uses to fetch the argument), under every sort.

static CUR_ARGS: std::sync::atomic::AtomicPtr<BenchArgs> = std::sync::atomic::AtomicPtr::new(std::ptr::null_mut());
static CUR_INTS: std::sync::Mutex<Vec<i32>> = std::sync::Mutex::new(Vec::new());
static CUR_STRS: std::sync::Mutex<Vec<String>> = std::sync::Mutex::new(Vec::new());

fn cur_args() -> &'static BenchArgs {
    unsafe { &*CUR_ARGS.load(std::sync::atomic::Ordering::SeqCst) }
}

fn check_arg_names(r: &Report) {
    let mut lists: Vec<Vec<u8>> = vec![vec![]];
    let mut level: Vec<Vec<u8>> = vec![vec![]];
    for _ in 0..4 {
        let mut next = Vec::new();
        for l in &level {
            for v in 1u8..=3 {
                let mut l2 = l.clone();
                l2.push(v);
                next.push(l2);
            }
        }
        lists.extend(next.iter().cloned());
        level = next;
    }
    for (li, list) in lists.iter().enumerate() {
        for strings in [false, true] {
            if strings && list.iter().any(|v| *v == 3) {
                continue; // strings over two letters only
            }
            CUR_ARGS.store(Box::leak(Box::new(BenchArgs::new())), std::sync::atomic::Ordering::SeqCst);
            let renderings: Vec<String> = if strings {
                let v: Vec<String> = list.iter().map(|v| if *v == 1 { "a".to_owned() } else { "b".to_owned() }).collect();
                *CUR_STRS.lock().unwrap() = v.clone();
                v
            } else {
                let v: Vec<i32> = list.iter().map(|v| *v as i32).collect();
                *CUR_INTS.lock().unwrap() = v.clone();
                v.iter().map(|x| x.to_string()).collect()
            };
            let entry: &'static BenchEntry = Box::leak(Box::new(BenchEntry {
                meta: meta("f", "f", "c", 10),
                bench: if strings {
                    BenchEntryRunner::Args(|| cur_args().runner(|| CUR_STRS.lock().unwrap().clone(), |s| s.to_string(), |_, _| {}))
                } else {
                    BenchEntryRunner::Args(|| cur_args().runner(|| CUR_INTS.lock().unwrap().clone(), |s| s.to_string(), |_, _| {}))
                },
            }));
            for sort in [None, Some((0u8, false)), Some((1, false)), Some((1, true)), Some((2, false)), Some((2, true))] {
                let t = verif::tree(&[entry], &[], None, sort);
                r.case(1);
                let got: Vec<(String, usize)> = t[0].children[0].args.clone().unwrap_or_default();
                // every shown (label, position) pair: the position's value renders as the label; the pairs are exactly
                // the positions 0..n, each once
                let mut positions: Vec<usize> = got.iter().map(|g| g.1).collect();
                positions.sort_unstable();
                let bad = got.iter().any(|(label, i)| renderings.get(*i) != Some(label)) || positions != (0..renderings.len()).collect::<Vec<_>>();
                if bad {
                    r.violation(Violation {
                        sig: json!({"check":"arg-names","strings":strings,"repeated": renderings.windows(2).any(|w| w[0] == w[1])}),
                        text: format!("a benchmark with args {renderings:?} ({}) sorted by {sort:?} registers the (label, position) pairs {got:?}: every value must have one label, its own rendering, leading back to its own position", if strings {"owned strings"} else {"integers"}),
                        case: json!({"kind":"argnames","list":list,"strings":strings}),
                    });
                }
                r.sample((li * 12) as u64, || json!({"args": renderings, "sort": format!("{sort:?}"), "pairs": got.iter().map(|g| json!([g.0, g.1])).collect::<Vec<_>>()}));
            }
        }
    }
    r.set_bounds(json!({"lists": "every list of <= 4 values over {1,2,3} as integers, over {a,b} as owned strings (repeats and adjacent equal values included)", "sorts": 6}));
}

fn main() {
    let cli = Cli::parse();
    mc_seq::quiet_panics();
    let r = Report::new("c13", &cli);
    if cli.sub.first().map(|s| s.as_str()) == Some("argnames") || cli.case.as_ref().map_or(false, |c| c["kind"] == "argnames") {
        check_arg_names(&r);
        r.emit();
    }
    if cli.sub.first().map(|s| s.as_str()) == Some("perm") {
        check_permutations(&cli, &r);
        r.emit();
    }
    let regexes: Vec<Option<Regex>> = FILTERS.iter().map(|(p, exact)| if *exact { None } else { Some(Regex::new(p).unwrap()) }).collect();
    let paths = paths();

    if let Some(case) = &cli.case {
        if case["kind"] == "perm" {
            // replay of an order-independence finding: re-run the permutation check (it is
            // deterministic and small) and keep the findings
            check_permutations(&cli, &r);
            r.emit();
        }
        let ops = ops_from(&case["ops"]);
        match case["kind"].as_str().unwrap() {
            "filters" => {
                check_state(&r, &ops, &regexes, &[case["path"].as_str().unwrap().to_owned()]);
            }
            _ => {
                let items: Vec<&Item> = case["items"]
                    .as_array()
                    .unwrap()
                    .iter()
                    .map(|i| ITEMS.iter().find(|it| it.kind as u64 == i[0].as_u64().unwrap() && it.module == i[1].as_str().unwrap() && it.name == i[2].as_str().unwrap()).unwrap())
                    .collect();
                check_tree(&r, &items, &ops, &regexes);
            }
        }
        r.case(1);
        r.emit();
    }

    // (i) every operation sequence up to the depth: BFS over insertion histories;
    // the state is the ordered history itself (insertion order matters to SplitVec),
    // deduplicated on the *multiset split* (skip list order, positive list order).
    let depth = if cli.thorough { 5 } else { 4 };
    let nf = if cli.thorough { FILTERS.len() } else { 8 };
    let mut level: Vec<Vec<FilterOp>> = vec![vec![]];
    let mut states = 0u64;
    check_state(&r, &[], &regexes, &paths);
    for d in 0..depth {
        let mut next = Vec::new();
        for hist in &level {
            for filter in 0..nf {
                for include in [false, true] {
                    // canonical pruning: a filter may repeat (overridden tests do this) only once per polarity
                    let op = FilterOp { filter, include };
                    if hist.iter().filter(|o| **o == op).count() >= 1 {
                        continue;
                    }
                    let mut h = hist.clone();
                    h.push(op);
                    states += 1;
                    if cli.mine(states) {
                        let ok = check_state(&r, &h, &regexes, &paths);
                        r.case(paths.len() as u64 * 2);
                        r.sample(states, || json!({"filter_ops": ops_json(&h), "selected_paths": paths.iter().filter(|p| reference_match(&h, &regexes, p)).count()}));
                        r.outcome(format!("{}", paths.iter().map(|p| if reference_match(&h, &regexes, p) { '1' } else { '0' }).collect::<String>()));
                        if !ok {
                            continue;
                        }
                    }
                    if d + 1 < depth {
                        next.push(h);
                    }
                }
            }
        }
        level = next;
    }

    // (ii) trees: every subset of <= 4 items x every filter set of <= 2 positive, <= 2 skip
    let mut filter_sets: Vec<Vec<FilterOp>> = vec![vec![]];
    let nf2 = FILTERS.len();
    for a in 0..nf2 {
        for ia in [false, true] {
            filter_sets.push(vec![FilterOp { filter: a, include: ia }]);
            for b in (a + 1)..nf2 {
                for ib in [false, true] {
                    filter_sets.push(vec![FilterOp { filter: a, include: ia }, FilterOp { filter: b, include: ib }]);
                    if cli.thorough {
                        for c in (b + 1)..nf2 {
                            for ic in [false, true] {
                                filter_sets.push(vec![FilterOp { filter: a, include: ia }, FilterOp { filter: b, include: ib }, FilterOp { filter: c, include: ic }]);
                            }
                        }
                    }
                }
            }
        }
    }
    let max_items = if cli.thorough { 5 } else { 4 };
    let mut tree_cases = 0u64;
    for mask in 1u32..(1 << ITEMS.len()) {
        if mask.count_ones() as usize > max_items {
            continue;
        }
        let items: Vec<&Item> = (0..ITEMS.len()).filter(|i| mask & (1 << i) != 0).map(|i| &ITEMS[i]).collect();
        for ops in &filter_sets {
            tree_cases += 1;
            if cli.mine(tree_cases) {
                check_tree(&r, &items, ops, &regexes);
                r.case(items.len() as u64);
            }
        }
    }
    r.set_bounds(json!({
        "filters": FILTERS.iter().map(|f| json!([f.0, if f.1 {"exact"} else {"regex"}])).collect::<Vec<_>>(),
        "filter_alphabet_used_in_sequences": nf, "sequence_depth": depth, "paths": paths.len(),
        "tree_items": ITEMS.len(), "max_items_per_tree": max_items, "filter_sets_on_trees": filter_sets.len(),
        "regex_engine": "the reference matches with the same regex-lite engine: the property is about selection logic"
    }));
    r.emit();
}
