//! C18 — printed durations, sizes and throughputs are truthful truncations.
//!
//! Durations: exact integer reference on a dense set (every ps below 2 us, dense
//! windows around every unit boundary and power of ten, extremes). Byte sizes and
//! throughputs: exact rational reference; because the statement allows
//! double-precision rounding, a rendering is accepted when it is the reference
//! rendering of a real within 1e-9 relative of the exact value (at most the
//! neighbouring truncation / the neighbouring prefix).

use divan::verif;
use mc_seq::{par_for, Cli, Report, Violation};
use serde_json::json;

const NS: u128 = 1_000;
const US: u128 = 1_000_000;
const MS: u128 = 1_000_000_000;
const S: u128 = 1_000_000_000_000;
const MIN: u128 = 60 * S;
const HOUR: u128 = 3600 * S;
const DAY: u128 = 86400 * S;
const UNITS: [(u128, &str); 7] = [(NS, "ns"), (US, "µs"), (MS, "ms"), (S, "s"), (MIN, "m"), (HOUR, "h"), (DAY, "d")];

fn digits(mut n: u128) -> u32 {
    let mut d = 1;
    while n >= 10 {
        n /= 10;
        d += 1;
    }
    d
}

/// `num/den` truncated toward zero to max(0, 4 - d) decimals, no trailing zeros.
/// Requires num * 10^3 to fit in u128.
fn truncate4(num: u128, den: u128) -> String {
    let int = num / den;
    let d = digits(int);
    let k = 4u32.saturating_sub(d);
    if k == 0 {
        return int.to_string();
    }
    let pow = 10u128.pow(k);
    let frac = (num % den) * pow / den;
    let mut s = format!("{int}.{frac:0width$}", width = k as usize);
    while s.ends_with('0') {
        s.pop();
    }
    if s.ends_with('.') {
        s.pop();
    }
    s
}

fn duration_ref(p: u128) -> String {
    let (unit, suffix) = UNITS.iter().rev().find(|(u, _)| *u <= p).copied().unwrap_or((NS, "ns"));
    // p / unit: for huge day counts avoid overflow of num * 10^k (k = 0 there)
    let num = if p / unit >= 10_000 {
        return format!("{} {suffix}", p / unit);
    } else {
        p
    };
    format!("{} {suffix}", truncate4(num, unit))
}

fn check_duration(r: &Report, p: u128) {
    let got = std::panic::catch_unwind(|| verif::fmt_duration(p));
    let want = duration_ref(p);
    match got {
        Ok(g) if g == want => {}
        other => {
            let unit = UNITS.iter().rev().find(|(u, _)| *u <= p).map_or("ns", |x| x.1);
            r.violation(Violation {
                sig: json!({"check":"duration","unit":unit}),
                text: format!("{p} ps is printed as {:?}; the value truncated to 4 significant digits in its unit is {want:?}", other.map_err(mc_seq::panic_text)),
                case: json!({"kind":"duration","picos":p.to_string()}),
            })
        }
    }
}

fn check_duration_width(r: &Report, p: u128, width: usize) {
    let got = std::panic::catch_unwind(|| verif::fmt_duration_width(p, width));
    let base = duration_ref(p);
    let len = base.len(); // the painter pads by byte length, as the implementation does
    let want = if len < width { format!("{base}{}", " ".repeat(width - len)) } else { base };
    match got {
        Ok(g) if g == want => {}
        other => r.violation(Violation {
            sig: json!({"check":"duration-width"}),
            text: format!("{p} ps with width {width} is printed as {:?}, expected {want:?}", other.map_err(mc_seq::panic_text)),
            case: json!({"kind":"duration_width","picos":p.to_string(),"width":width}),
        }),
    }
}

fn duration_values(thorough: bool) -> Vec<u128> {
    let mut v: Vec<u128> = Vec::new();
    let m_max: u128 = if thorough { 60_000 } else { 12_000 };
    for (u, _) in UNITS {
        for m in 1..=m_max {
            let base = m * u / 1000;
            for delta in 0..=4u128 {
                v.push((base + delta).saturating_sub(2));
            }
        }
    }
    let mut p: u128 = 1;
    for _ in 0..39 {
        v.extend([p.saturating_sub(1), p, p + 1]);
        p = p.saturating_mul(10);
    }
    for k in 0..128 {
        let p = 1u128 << k;
        v.extend([p - 1, p, p + 1]);
    }
    v.extend([u128::MAX, u128::MAX - 1, DAY * 9_999, DAY * 10_000 - 1, DAY * 10_000, DAY * 10_001, DAY * 99_999 + 5, DAY * 1_000 - 1]);
    v.sort_unstable();
    v.dedup();
    v
}

// ------------------------------------------------------ bytes and throughputs

const DEC: [f64; 6] = [1., 1e3, 1e6, 1e9, 1e12, 1e15];
const BIN: [f64; 6] = [1., 1024., 1048576., 1073741824., 1099511627776., 1125899906842624.];
const BYTES_SUFFIX: [[&str; 6]; 2] = [["B", "KB", "MB", "GB", "TB", "PB"], ["B", "KiB", "MiB", "GiB", "TiB", "PiB"]];
const TP_SUFFIX: [[&str; 6]; 5] = [
    ["B/s", "KB/s", "MB/s", "GB/s", "TB/s", "PB/s"],
    ["B/s", "KiB/s", "MiB/s", "GiB/s", "TiB/s", "PiB/s"],
    ["char/s", "Kchar/s", "Mchar/s", "Gchar/s", "Tchar/s", "Pchar/s"],
    ["Hz", "KHz", "MHz", "GHz", "THz", "PHz"],
    ["item/s", "Kitem/s", "Mitem/s", "Gitem/s", "Titem/s", "Pitem/s"],
];

/// floor(num * factor / (den * 10^9 * start)) through nested exact divisions.
fn scaled_floor(num: u128, factor: u128, den: u128, start: u128) -> Option<u128> {
    use mc_seq::bigint::U256;
    let x = U256::mul_u128(num, factor);
    let (q, _) = x.div_rem_u128(den);
    let (q, _) = q.div_rem_u128(1_000_000_000);
    let (q, _) = q.div_rem_u128(start);
    if q.hi != 0 {
        None
    } else {
        Some(q.lo)
    }
}

/// Reference rendering of the real `num/den * (f / 10^9)` with the prefix table.
fn render_scaled(num: u128, den: u128, f: u128, starts: &[u128; 6], suffixes: &[&str; 6]) -> Option<String> {
    // largest prefix not exceeding the value
    let mut sc = 0;
    for i in (0..6).rev() {
        if scaled_floor(num, f, den, starts[i])? >= 1 {
            sc = i;
            break;
        }
    }
    let int = scaled_floor(num, f, den, starts[sc])?;
    let k = 4u32.saturating_sub(digits(int));
    let pow = 10u128.pow(k);
    let n = scaled_floor(num, f * pow, den, starts[sc])?;
    Some(format!("{} {}", truncate4(n, pow), suffixes[sc]))
}

/// Candidate renderings of the non-negative rational num/den: the exact one and
/// those of the reals 1e-9 (relative) below and above it, which is far more than
/// the few ulp of double-precision rounding the statement allows for.
fn scaled_candidates(num: u128, den: u128, starts: &[u128; 6], suffixes: &[&str; 6]) -> Vec<String> {
    let mut out = Vec::new();
    for f in [1_000_000_000u128, 999_999_999, 1_000_000_001] {
        if let Some(s) = render_scaled(num, den, f, starts, suffixes) {
            if !out.contains(&s) {
                out.push(s);
            }
        }
    }
    out
}

/// For values with five or more integer digits (only possible with the largest
/// prefix) every integer digit is printed, more than a double can hold exactly:
/// any integer between the renderings of the perturbed reals is accepted.
fn accept_wide_integer(got: &str, num: u128, den: u128, starts: &[u128; 6], suffixes: &[&str; 6]) -> bool {
    let Some((number, suffix)) = got.split_once(' ') else { return false };
    if suffix != suffixes[5] || number.len() < 5 || !number.bytes().all(|b| b.is_ascii_digit()) {
        return false;
    }
    let Ok(n) = number.parse::<u128>() else { return false };
    match (scaled_floor(num, 999_999_999, den, starts[5]), scaled_floor(num, 1_000_000_001, den, starts[5])) {
        (Some(lo), Some(hi)) => lo <= n && n <= hi,
        _ => false,
    }
}

fn int_starts(binary: bool) -> [u128; 6] {
    if binary {
        [1, 1 << 10, 1 << 20, 1 << 30, 1 << 40, 1 << 50]
    } else {
        [1, 1_000, 1_000_000, 1_000_000_000, 1_000_000_000_000, 1_000_000_000_000_000]
    }
}

fn check_throughput(r: &Report, kind: usize, count: u64, picos: u128, binary: bool) {
    let got = std::panic::catch_unwind(|| verif::fmt_throughput(kind, count, picos, binary));
    let table = match kind {
        0 => binary as usize,
        1 => 2,
        2 => 3,
        _ => 4,
    };
    let suffixes = &TP_SUFFIX[table];
    let use_binary = kind == 0 && binary;
    let candidates: Vec<String> = if count == 0 {
        vec![format!("0 {}", suffixes[0])]
    } else if picos == 0 {
        vec![format!("inf {}", suffixes[0])]
    } else {
        // count per second = count * 10^12 / picos
        let num = count as u128 * S;
        scaled_candidates(num, picos, &int_starts(use_binary), suffixes)
    };
    if candidates.is_empty() {
        r.add(&r.excluded, 1);
        return;
    }
    match got {
        Ok(g) if candidates.contains(&g) => {}
        Ok(g) if count != 0 && picos != 0 && accept_wide_integer(&g, count as u128 * S, picos, &int_starts(use_binary), suffixes) => {}
        other => r.violation(Violation {
            sig: json!({"check":"throughput","kind":kind,"zero_count":count==0,"zero_time":picos==0}),
            text: format!(
                "throughput of {count} (counter kind {kind}) in {picos} ps is printed as {:?}; truncating the exact rate to 4 significant digits gives {candidates:?}",
                other.map_err(mc_seq::panic_text)
            ),
            case: json!({"kind":"throughput","counter":kind,"count":count.to_string(),"picos":picos.to_string(),"binary":binary}),
        }),
    }
}

fn check_bytes(r: &Report, value_num: u64, value_den: u64, binary: bool) {
    // the value is the f64 closest to num/den (what the statistics hold); its
    // exact rational is recovered from the float itself
    let value = value_num as f64 / value_den as f64;
    let got = std::panic::catch_unwind(|| verif::fmt_bytes(value, binary));
    // exact rational of `value`: m * 2^e
    let bits = value.to_bits();
    let exp = ((bits >> 52) & 0x7ff) as i32;
    let mant = if exp == 0 { (bits & ((1 << 52) - 1)) << 1 } else { (bits & ((1 << 52) - 1)) | (1 << 52) };
    let e = exp - 1075;
    let (num, den): (u128, u128) = if e >= 0 {
        if e > 60 {
            r.add(&r.excluded, 1);
            return;
        }
        ((mant as u128) << e, 1)
    } else if -e <= 70 {
        // reduce common powers of two
        let tz = (mant.trailing_zeros() as i32).min(-e);
        ((mant >> tz) as u128, 1u128 << (-e - tz))
    } else {
        r.add(&r.excluded, 1);
        return;
    };
    let suffixes = &BYTES_SUFFIX[binary as usize];
    let candidates = if value == 0.0 { vec![format!("0 {}", suffixes[0])] } else { scaled_candidates(num, den, &int_starts(binary), suffixes) };
    if candidates.is_empty() {
        r.add(&r.excluded, 1);
        return;
    }
    match got {
        Ok(g) if candidates.contains(&g) => {}
        Ok(g) if value != 0.0 && accept_wide_integer(&g, num, den, &int_starts(binary), suffixes) => {}
        other => r.violation(Violation {
            sig: json!({"check":"bytes","binary":binary}),
            text: format!("{value} bytes ({value_num}/{value_den}) is printed as {:?}; truncation to 4 significant digits gives {candidates:?}", other.map_err(mc_seq::panic_text)),
            case: json!({"kind":"bytes","num":value_num.to_string(),"den":value_den.to_string(),"binary":binary}),
        }),
    }
    let _ = (DEC, BIN);
}

fn counts() -> Vec<u64> {
    let mut v: Vec<u64> = vec![0, 1, 2, 3, 7, 999, 1000, 1001, 1023, 1024, 1025, 12345, 999_999, 1_000_000, 1_048_575, 1_048_576, u32::MAX as u64, u64::MAX, u64::MAX - 1];
    let mut p = 1u64;
    for _ in 0..19 {
        p = p.saturating_mul(10);
        v.extend([p - 1, p, p + 1]);
    }
    for k in [10, 20, 30, 40, 50, 53, 60, 63] {
        v.extend([(1u64 << k) - 1, 1u64 << k, (1u64 << k) + 1]);
    }
    v.sort_unstable();
    v.dedup();
    v
}

fn tp_durations() -> Vec<u128> {
    let mut v: Vec<u128> = vec![0, 1, 2, 3, 7, 999, 1000, 1001, 1024, 123_456, 999_999, US, US + 1, 3 * US, MS - 1, MS, 7 * MS, S - 1, S, S + 1, 2 * S, 60 * S, HOUR, DAY, 9 * DAY];
    let mut p = 1u128;
    for _ in 0..17 {
        p *= 10;
        v.extend([p - 1, p + 1, 3 * p]);
    }
    // beyond 64 bits of picoseconds (213 days and more): a duration is a 128-bit figure
    v.extend([(1u128 << 64) - 1, 1u128 << 64, (1u128 << 64) + (1 << 12), 3u128 << 63, 1u128 << 65, 40_000_000_000_000_000_000, 10u128.pow(21), 10u128.pow(24), 7 * 10u128.pow(27), 1u128 << 100, u128::MAX >> 1, u128::MAX]);
    v.sort_unstable();
    v.dedup();
    v
}

fn p128(v: &serde_json::Value) -> u128 {
    v.as_str().unwrap().parse().unwrap()
}

fn main() {
    let cli = Cli::parse();
    mc_seq::quiet_panics();
    let r = Report::new("c18", &cli);
    if let Some(case) = &cli.case {
        match case["kind"].as_str().unwrap() {
            "duration" => check_duration(&r, p128(&case["picos"])),
            "duration_width" => check_duration_width(&r, p128(&case["picos"]), case["width"].as_u64().unwrap() as usize),
            "throughput" => check_throughput(&r, case["counter"].as_u64().unwrap() as usize, p128(&case["count"]) as u64, p128(&case["picos"]), case["binary"].as_bool().unwrap()),
            "bytes" => check_bytes(&r, p128(&case["num"]) as u64, p128(&case["den"]) as u64, case["binary"].as_bool().unwrap()),
            k => panic!("unknown case kind {k}"),
        }
        r.case(1);
        r.emit();
    }

    // durations: every ps below 2 us (5 us thorough) ...
    let dense: u64 = if cli.thorough { 5_000_000 } else { 2_000_000 };
    par_for(dense + 1, |p| {
        check_duration(&r, p as u128);
        r.case(1);
        r.sample(p, || json!({"picos": p, "printed": verif::fmt_duration(p as u128)}));
    });
    // ... and the boundary windows
    let values = duration_values(cli.thorough);
    par_for(values.len() as u64, |i| {
        let p = values[i as usize];
        check_duration(&r, p);
        r.case(1);
        r.outcome(verif::fmt_duration(p).split(' ').last().unwrap().to_owned());
        if i % 997 == 0 {
            for width in [0usize, 8, 14] {
                check_duration_width(&r, p, width);
            }
        }
    });
    // throughputs
    let cs = counts();
    let ds = tp_durations();
    // the byte format only applies to the bytes kind: chars / cycles / items are always decimal
    let combos: Vec<(usize, bool)> = vec![(0, false), (0, true), (1, false), (2, false), (3, false), (1, true), (2, true), (3, true)];
    par_for((cs.len() * ds.len() * combos.len()) as u64, |i| {
        let i = i as usize;
        let (kind, binary) = combos[i % combos.len()];
        let d = ds[(i / combos.len()) % ds.len()];
        let c = cs[i / (combos.len() * ds.len())];
        check_throughput(&r, kind, c, d, binary);
        r.case(1);
        r.sample(i as u64, || json!({"count": c.to_string(), "picos": d.to_string(), "kind": kind, "binary": binary, "printed": verif::fmt_throughput(kind, c, d, binary)}));
    });
    // dense integer rates: count c in 1 s and in 3 ns
    let dense_tp: u64 = if cli.thorough { 3_000_000 } else { 400_000 };
    par_for(dense_tp, |c| {
        check_throughput(&r, 3, c, S, false);
        check_throughput(&r, 3, c, S, true);
        check_throughput(&r, 0, c, S, true);
        check_throughput(&r, 0, c * 1024 + 1023, 3 * NS, true);
        r.case(3);
    });
    // byte sizes: integers, halves, thirds
    let dense_bytes: u64 = if cli.thorough { 3_000_000 } else { 400_000 };
    par_for(dense_bytes, |n| {
        for binary in [false, true] {
            check_bytes(&r, n, 1, binary);
            check_bytes(&r, n, 2, binary);
            check_bytes(&r, n * 1021 + 7, 3, binary);
        }
        r.case(6);
    });
    for &c in &cs {
        for den in [1u64, 2, 3, 1000] {
            for binary in [false, true] {
                check_bytes(&r, c, den, binary);
                r.case(1);
            }
        }
    }
    r.set_bounds(json!({
        "durations": {"dense_below_ps": dense, "boundary_values": values.len(), "widths": [0, 8, 14]},
        "throughputs": {"counts": cs.len(), "durations": ds.len(), "kinds": ["bytes decimal","bytes binary","chars","cycles","items","chars/cycles/items with the binary byte format configured (must stay decimal)"], "dense_rates": dense_tp},
        "bytes": {"dense": dense_bytes, "denominators": [1,2,3,1000]},
        "tolerance": "durations exact; bytes/throughputs: rendering of a real within 1e-9 relative of the exact rational (neighbouring truncation or prefix)"
    }));
    r.emit();
}
