//! C16 — output order is the documented total order for each --sort attribute.
//!
//!  (i)   natural_cmp on every string of length <= 4 over a 7-symbol alphabet:
//!        agreement with a token-list reference, preorder axioms on all triples.
//!  (ii)  runtime-argument comparison on a label alphabet: value order on numeric
//!        labels, natural order on identifiers, total-preorder axioms on all
//!        triples (a comparator that is not one can make `sort_by` panic); every
//!        axiom failure is turned into concrete lists sorted by the real tree code.
//!  (iii) EntryTree::sort_by_attr on all sibling sets of <= 4 nodes: permutation,
//!        exact reverse, order equal to the reference key.

use divan::__private::{
    BenchArgs, BenchEntry, BenchEntryRunner, EntryConst, EntryLocation, EntryMeta, EntryType, GenericBenchEntry,
    GroupEntry,
};
use divan::verif::{self, NodeMirror};
use mc_seq::{par_for, Cli, Report, Violation};
use serde_json::json;
use std::cmp::Ordering;
use std::sync::atomic::{AtomicU64, Ordering::Relaxed};

// ---------------------------------------------------------------- (i) natural

const SYMS: [&str; 7] = ["0", "1", "9", "a", "B", "_", "é"];

/// Second alphabet: characters that are numeric in Unicode but no ASCII digits (superscript two, Arabic-Indic
/// three, the vulgar fraction one half, fullwidth one) next to ASCII digits and a letter: only ASCII digit
/// runs compare by value, everything else is text compared bytewise.
const SYMS2: [&str; 7] = ["2", "10", "x", "\u{b2}", "\u{663}", "\u{bd}", "\u{ff11}"];

fn all_strings(max_len: usize) -> Vec<String> {
    all_strings_over(&SYMS, max_len)
}

fn all_strings_over(syms: &[&str], max_len: usize) -> Vec<String> {
    let mut out = vec![String::new()];
    let mut level = vec![String::new()];
    for _ in 0..max_len {
        let mut next = Vec::new();
        for s in &level {
            for sym in syms {
                next.push(format!("{s}{sym}"));
            }
        }
        out.extend(next.iter().cloned());
        level = next;
    }
    out
}

#[derive(Debug, PartialEq, Eq, Clone)]
enum Tok {
    Int(u128),
    Text(Vec<u8>),
}

fn tokens(s: &str) -> Vec<Tok> {
    let b = s.as_bytes();
    let mut out = Vec::new();
    let mut i = 0;
    while i < b.len() {
        let digit = b[i].is_ascii_digit();
        let mut j = i;
        while j < b.len() && b[j].is_ascii_digit() == digit {
            j += 1;
        }
        if digit {
            out.push(Tok::Int(std::str::from_utf8(&b[i..j]).unwrap().parse().unwrap()));
        } else {
            out.push(Tok::Text(b[i..j].to_vec()));
        }
        i = j;
    }
    out
}

/// Reference natural order: token lists compared lexicographically; digit runs by
/// numeric value (leading zeros equal), anything else by bytes; a digit run
/// against text compares as bytes.
fn natural_ref(a: &str, b: &str) -> Ordering {
    let (ta, tb) = (tokens(a), tokens(b));
    let raw = |s: &str| -> Vec<Vec<u8>> {
        let bytes = s.as_bytes();
        let mut out = Vec::new();
        let mut i = 0;
        while i < bytes.len() {
            let d = bytes[i].is_ascii_digit();
            let mut j = i;
            while j < bytes.len() && bytes[j].is_ascii_digit() == d {
                j += 1;
            }
            out.push(bytes[i..j].to_vec());
            i = j;
        }
        out
    };
    let (ra, rb) = (raw(a), raw(b));
    for i in 0..ta.len().min(tb.len()) {
        let o = match (&ta[i], &tb[i]) {
            (Tok::Int(x), Tok::Int(y)) => x.cmp(y),
            _ => ra[i].cmp(&rb[i]),
        };
        if o != Ordering::Equal {
            return o;
        }
    }
    ta.len().cmp(&tb.len())
}

fn ord_i8(o: Ordering) -> i8 {
    o as i8
}

fn check_natural(cli: &Cli, r: &Report) {
    check_natural_over(cli, r, all_strings(4), all_strings(3).len());
    // strings of <= 3 symbols over the second alphabet (non-ASCII numerics), all triples
    let second = all_strings_over(&SYMS2, 3);
    let m = second.len();
    check_natural_over(cli, r, second, m);
}

fn check_natural_over(cli: &Cli, r: &Report, strings: Vec<String>, quick_m: usize) {
    let n = strings.len();
    // full comparison matrix over the real comparator
    let matrix: Vec<i8> = {
        let cells: Vec<AtomicU64> = (0..(n * n + 7) / 8).map(|_| AtomicU64::new(0)).collect();
        par_for((n * n) as u64, |i| {
            let (a, b) = (&strings[i as usize / n], &strings[i as usize % n]);
            let got = verif::natural_cmp(a, b);
            let want = natural_ref(a, b);
            if got != want {
                r.violation(Violation {
                    sig: json!({"check":"natural_cmp","class":"reference"}),
                    text: format!("natural_cmp({a:?}, {b:?}) = {got:?}, natural order says {want:?}"),
                    case: json!({"kind":"natural","a":a,"b":b}),
                });
            }
            let v = (ord_i8(got) + 1) as u64; // 0,1,2
            cells[i as usize / 8].fetch_or(v << ((i % 8) * 8), Relaxed);
        });
        (0..n * n).map(|i| ((cells[i / 8].load(Relaxed) >> ((i % 8) * 8)) & 0xff) as i8 - 1).collect()
    };
    r.add(&r.states, (n * n) as u64);
    r.add(&r.transitions, (n * n) as u64);
    r.add(&r.traces, (n * n) as u64);
    r.add(&r.evaluations, (n * n) as u64);
    // reflexive + antisymmetric on all pairs
    for i in 0..n {
        if matrix[i * n + i] != 0 {
            r.violation(Violation {
                sig: json!({"check":"natural_cmp","class":"reflexive"}),
                text: format!("natural_cmp({0:?}, {0:?}) != Equal", strings[i]),
                case: json!({"kind":"natural","a":strings[i],"b":strings[i]}),
            });
        }
        for j in 0..n {
            if matrix[i * n + j] != -matrix[j * n + i] {
                r.violation(Violation {
                    sig: json!({"check":"natural_cmp","class":"antisymmetric"}),
                    text: format!("natural_cmp({:?}, {:?}) and its converse are not opposite", strings[i], strings[j]),
                    case: json!({"kind":"natural","a":strings[i],"b":strings[j]}),
                });
            }
        }
    }
    // transitivity on all triples of the sub-alphabet (length <= 3; thorough: <= 4)
    let m = if cli.thorough { n } else { quick_m };
    par_for((m * m) as u64, |ij| {
        let (i, j) = (ij as usize / m, ij as usize % m);
        let a = matrix[i * n + j];
        if a > 0 {
            return;
        }
        for k in 0..m {
            let b = matrix[j * n + k];
            if b <= 0 {
                let c = matrix[i * n + k];
                // i <= j <= k  =>  i <= k, strictly if either step is strict
                if c > 0 || ((a < 0 || b < 0) && c == 0) {
                    r.violation(Violation {
                        sig: json!({"check":"natural_cmp","class":"transitive"}),
                        text: format!("natural_cmp is not transitive on ({:?}, {:?}, {:?})", strings[i], strings[j], strings[k]),
                        case: json!({"kind":"natural3","a":strings[i],"b":strings[j],"c":strings[k]}),
                    });
                }
            }
        }
    });
    r.add(&r.evaluations, (m * m * m) as u64);
    r.force_sample(json!({"natural_cmp_strings": n, "transitivity_triples": (m as u64).pow(3), "examples": [strings[5], strings[77], strings[n / 2]]}));
    r.outcome(format!("natural:{}", matrix.iter().filter(|x| **x == 0).count()));
}

// ------------------------------------------------------------- (ii) arg names

const NUMERIC: [&str; 32] = [
    "0", "1", "2", "9", "10", "010", "100", "-1", "-20", "-3", "1.5", "-0.5", "1e1", "9.25", "2.0", "0.0",
    "9007199254740993", "9007199254740992", "18446744073709551616", "340282366920938463463374607431768211455",
    "-170141183460469231731687303715884105728", "1e40",
    // neighbours that share one f64 approximation (exact tie-break), both signs, and a float on the tie
    "-9007199254740993", "-9007199254740992", "-9223372036854775808", "-9223372036854775807", "-9223372036854775806",
    "9223372036854775807", "9223372036854775806", "-9007199254740992.0", "-170141183460469231731687303715884105727", "18446744073709551617",
];
const IDENTS: [&str; 10] = ["a", "a2", "a10", "a02", "b", "B", "_x", "x1y2", "x1y10", ""];
const ODD: [&str; 8] = ["inf", "nan", "-inf", "1f", "0x10", "1_000", "+5", " 7"];

#[derive(Clone, Copy, Debug, PartialEq)]
enum Num {
    Int(i128, bool, u128), // (value if it fits i128, is_u128_only, u128 value)
    Float(f64),
}

fn numeric_value(s: &str) -> Option<Num> {
    if let Ok(u) = s.parse::<u128>() {
        return Some(Num::Int(u as i128, u > i128::MAX as u128, u));
    }
    if let Ok(i) = s.parse::<i128>() {
        return Some(Num::Int(i, false, 0));
    }
    match s.parse::<f64>() {
        Ok(f) if f.is_finite() => Some(Num::Float(f)),
        _ => None,
    }
}

/// Exact comparison of two numeric labels by value (integers exactly, an integer
/// against a float exactly through integer/fraction decomposition).
fn value_cmp(a: Num, b: Num) -> Ordering {
    fn int_parts(n: Num) -> Option<(bool, u128)> {
        // (negative, magnitude)
        match n {
            Num::Int(_, true, u) => Some((false, u)),
            Num::Int(i, false, _) => Some((i < 0, i.unsigned_abs())),
            Num::Float(_) => None,
        }
    }
    match (a, b) {
        (Num::Float(x), Num::Float(y)) => x.partial_cmp(&y).unwrap(),
        (x, y) if int_parts(x).is_some() && int_parts(y).is_some() => {
            let ((na, ma), (nb, mb)) = (int_parts(x).unwrap(), int_parts(y).unwrap());
            match (na, nb) {
                (false, false) => ma.cmp(&mb),
                (true, true) => mb.cmp(&ma),
                (true, false) => {
                    if ma == 0 && mb == 0 {
                        Ordering::Equal
                    } else {
                        Ordering::Less
                    }
                }
                (false, true) => {
                    if ma == 0 && mb == 0 {
                        Ordering::Equal
                    } else {
                        Ordering::Greater
                    }
                }
            }
        }
        (x, Num::Float(f)) => {
            // integer vs float: compare floor(f) and the fraction exactly
            let (neg, mag) = int_parts(x).unwrap();
            let fl = f.floor();
            // fl as integer (may be huge): compare via sign and magnitude
            let fneg = fl < 0.0;
            let fmag = fl.abs();
            let int_vs_floor = if fmag >= 3.5e38 {
                if fneg {
                    Ordering::Greater
                } else {
                    Ordering::Less
                }
            } else {
                let fm = fmag as u128;
                match (neg && mag != 0, fneg && fm != 0) {
                    (false, false) => mag.cmp(&fm),
                    (true, true) => fm.cmp(&mag),
                    (true, false) => Ordering::Less,
                    (false, true) => Ordering::Greater,
                }
            };
            if int_vs_floor != Ordering::Equal {
                int_vs_floor
            } else if f > fl {
                Ordering::Less
            } else {
                Ordering::Equal
            }
        }
        (Num::Float(_), y) => value_cmp(y, a).reverse(),
        _ => unreachable!(),
    }
}

fn check_args(_cli: &Cli, r: &Report) {
    let labels: Vec<&str> = NUMERIC.iter().chain(IDENTS.iter()).chain(ODD.iter()).copied().collect();
    let n = labels.len();
    // Comparator matrix per attribute over one fixed names slice (location =
    // index order, consistent for all pairs).
    for attr in 0u8..3 {
        let c = |i: usize, j: usize| verif::cmp_arg_names(attr, &labels, i, j);
        let mut matrix = vec![Ordering::Equal; n * n];
        for i in 0..n {
            for j in 0..n {
                matrix[i * n + j] = c(i, j);
            }
        }
        r.add(&r.states, (n * n) as u64);
        r.add(&r.transitions, (n * n) as u64);
        r.add(&r.traces, (n * n) as u64);
        r.add(&r.evaluations, (n * n * n) as u64);

        let class = |s: &str| -> &'static str {
            if numeric_value(s).is_some() {
                "numeric"
            } else {
                "text"
            }
        };
        // (a) defined orders
        for i in 0..n {
            for j in 0..n {
                if i == j {
                    if matrix[i * n + j] != Ordering::Equal {
                        r.violation(Violation {
                            sig: json!({"check":"arg_cmp","class":"reflexive","attr":attr}),
                            text: format!("comparing argument {:?} with itself under sort attribute {attr} is not Equal", labels[i]),
                            case: json!({"kind":"args","attr":attr,"labels":[labels[i]]}),
                        });
                    }
                    continue;
                }
                let want = match attr {
                    2 => Some(i.cmp(&j)), // location: declaration order
                    _ => {
                        // kind ties always; then name; then location
                        let by_name = match (numeric_value(labels[i]), numeric_value(labels[j])) {
                            (Some(x), Some(y)) => Some(value_cmp(x, y)),
                            (None, None) if IDENTS.contains(&labels[i]) && IDENTS.contains(&labels[j]) => {
                                Some(natural_ref(labels[i], labels[j]))
                            }
                            _ => None, // mixed or odd: the statement defines no order
                        };
                        by_name.map(|o| if o == Ordering::Equal { i.cmp(&j) } else { o })
                    }
                };
                if let Some(want) = want {
                    let got = matrix[i * n + j];
                    if got != want {
                        let kind = match (class(labels[i]), class(labels[j])) {
                            ("numeric", "numeric") => {
                                let ints = |s: &str| s.parse::<i128>().is_ok() || s.parse::<u128>().is_ok();
                                if ints(labels[i]) && ints(labels[j]) {
                                    "integers"
                                } else {
                                    "numeric-with-float"
                                }
                            }
                            _ => "identifiers",
                        };
                        r.violation(Violation {
                            sig: json!({"check":"arg_cmp","class":"value-order","labels":kind}),
                            text: format!(
                                "arguments {:?} (index {i}) and {:?} (index {j}) compare {got:?} under sort attribute {}, the documented order ({}) says {want:?}",
                                labels[i], labels[j], ["kind", "name", "location"][attr as usize],
                                if kind == "identifiers" { "natural order" } else { "by numeric value, ties in declaration order" }
                            ),
                            case: json!({"kind":"args","attr":attr,"labels":[labels[i],labels[j]]}),
                        });
                    }
                }
            }
        }
        // (b) total-preorder axioms on all triples
        let le = |i: usize, j: usize| matrix[i * n + j] != Ordering::Greater;
        let mut witnesses: Vec<(usize, usize, usize)> = Vec::new();
        for i in 0..n {
            for j in 0..n {
                if matrix[i * n + j] != matrix[j * n + i].reverse() {
                    witnesses.push((i, j, j));
                }
                for k in 0..n {
                    if le(i, j) && le(j, k) && !le(i, k) {
                        witnesses.push((i, j, k));
                    }
                }
            }
        }
        // Every axiom failure becomes concrete input for the real sorting code:
        // the witness labels repeated to 24 elements, in every rotation.
        let mut reported = 0;
        for &(i, j, k) in witnesses.iter() {
            if reported >= 3 {
                break;
            }
            let trio = [labels[i], labels[j], labels[k]];
            for rot in 0..3 {
                let list: Vec<&'static str> = (0..24).map(|x| leak(trio[(x + rot) % 3])).collect();
                if let Err(msg) = sort_args_through_tree(&list, attr, false) {
                    let same_class = class(trio[0]) == class(trio[1]) && class(trio[1]) == class(trio[2]);
                    r.violation(Violation {
                        sig: json!({"check":"arg_cmp","class":"sort-panics","labels": if same_class {"same-class"} else {"mixed-class"}}),
                        text: format!(
                            "sorting the runtime arguments {list:?} by {} panics: {msg} (the comparator is not a total preorder on ({:?}, {:?}, {:?}))",
                            ["kind", "name", "location"][attr as usize], trio[0], trio[1], trio[2]
                        ),
                        case: json!({"kind":"argsort","attr":attr,"list":list}),
                    });
                    reported += 1;
                    break;
                }
            }
        }
        if !witnesses.is_empty() && reported == 0 {
            // The comparator is inconsistent but the enumerated lists happened not
            // to trip the standard library's check: still a total-order failure.
            let (i, j, k) = witnesses[0];
            let same_class = class(labels[i]) == class(labels[j]) && class(labels[j]) == class(labels[k]);
            r.violation(Violation {
                sig: json!({"check":"arg_cmp","class":"not-total-order","labels": if same_class {"same-class"} else {"mixed-class"}}),
                text: format!(
                    "argument comparison under {} is not a total preorder: witness ({:?}, {:?}, {:?}); {} witnesses over {} labels",
                    ["kind", "name", "location"][attr as usize], labels[i], labels[j], labels[k], witnesses.len(), n
                ),
                case: json!({"kind":"args","attr":attr,"labels":[labels[i],labels[j],labels[k]]}),
            });
        }
        r.outcome(format!("args:{attr}:{}", witnesses.len()));
    }
    r.force_sample(json!({"arg_labels": labels}));
}

fn leak(s: &str) -> &'static str {
    Box::leak(s.to_owned().into_boxed_str())
}

// ------------------------------------------------------- entries for the tree

fn plain(_: divan::Bencher) {}

thread_local! {
    /// Source file recorded in the locations of the entries built next.
    static CURRENT_FILE: std::cell::Cell<&'static str> = const { std::cell::Cell::new("zoo.rs") };
}

fn meta(display: &str, raw: &str, module_path: &str, line: u32, col: u32) -> EntryMeta {
    EntryMeta {
        display_name: leak(display),
        raw_name: leak(raw),
        module_path: leak(module_path),
        location: EntryLocation { file: CURRENT_FILE.with(|f| f.get()), line, col },
        bench_options: None,
    }
}

/// The Rust spelling of an item shown as `name`: `a5` stands for an item written with a raw identifier
/// (`fn r#a5`, `mod r#a5`), whose raw name and module path keep the `r#` that the display name drops.
fn raw_of(name: &str) -> String {
    if name == "a5" { "r#a5".to_owned() } else { name.to_owned() }
}

fn bench_entry(name: &str, module_path: &str, line: u32, col: u32) -> &'static BenchEntry {
    Box::leak(Box::new(BenchEntry { meta: meta(name, &raw_of(name), module_path, line, col), bench: BenchEntryRunner::Plain(plain) }))
}

/// The argument list the next tree construction uses. The runner of an entry
/// must be a plain fn pointer, so the list is passed through this global; one
/// leaked `BenchArgs` per distinct list.
static CURRENT_ARGS: std::sync::Mutex<Option<(&'static BenchArgs, &'static [&'static str])>> = std::sync::Mutex::new(None);

fn set_current_args(list: &[&'static str]) {
    use std::collections::HashMap;
    static CACHE: std::sync::Mutex<Option<HashMap<Vec<&'static str>, (&'static BenchArgs, &'static [&'static str])>>> =
        std::sync::Mutex::new(None);
    let mut cache = CACHE.lock().unwrap();
    let entry = *cache.get_or_insert_with(HashMap::new).entry(list.to_vec()).or_insert_with(|| {
        let args: &'static BenchArgs = Box::leak(Box::new(BenchArgs::new()));
        let list: &'static [&'static str] = Box::leak(list.to_vec().into_boxed_slice());
        (args, list)
    });
    *CURRENT_ARGS.lock().unwrap() = Some(entry);
}

/// A benchmark with runtime arguments (labels: the current argument list).
fn args_entry(name: &str, module_path: &str, line: u32, col: u32, list: &[&'static str]) -> &'static BenchEntry {
    set_current_args(list);
    Box::leak(Box::new(BenchEntry {
        meta: meta(name, &raw_of(name), module_path, line, col),
        bench: BenchEntryRunner::Args(|| {
            let (args, list) = CURRENT_ARGS.lock().unwrap().expect("argument list");
            args.runner(|| list, |s| s.to_string(), |_, _| {})
        }),
    }))
}

fn group_entry(display: &str, raw: &str, module_path: &str, line: u32, col: u32) -> &'static GroupEntry {
    Box::leak(Box::new(GroupEntry { meta: meta(display, raw, module_path, line, col), generic_benches: None }))
}

struct TyA;
struct TyB;
struct TyC;

/// A generic benchmark `name` over types (A, B, C in declaration order `order`)
/// or consts (values in `consts` order).
fn generic_entry(
    name: &str,
    module_path: &str,
    line: u32,
    col: u32,
    type_order: Option<&[u8]>,
    consts: Option<&'static [i64]>,
) -> &'static GroupEntry {
    let group: &'static mut GroupEntry =
        Box::leak(Box::new(GroupEntry { meta: meta(name, &raw_of(name), module_path, line, col), generic_benches: None }));
    let group_ptr: *mut GroupEntry = group;
    let group_ref: &'static GroupEntry = unsafe { &*group_ptr };
    let mk_ty = |t: u8| match t {
        0 => EntryType::new::<TyA>(),
        1 => EntryType::new::<TyB>(),
        _ => EntryType::new::<TyC>(),
    };
    let mut outer: Vec<&'static [GenericBenchEntry]> = Vec::new();
    match (type_order, consts) {
        (Some(types), None) => {
            let inner: Vec<GenericBenchEntry> = types
                .iter()
                .map(|&t| GenericBenchEntry { group: group_ref, bench: BenchEntryRunner::Plain(plain), ty: Some(mk_ty(t)), const_value: None })
                .collect();
            outer.push(Box::leak(inner.into_boxed_slice()));
        }
        (None, Some(cs)) => {
            let inner: Vec<GenericBenchEntry> = cs
                .iter()
                .map(|c| GenericBenchEntry { group: group_ref, bench: BenchEntryRunner::Plain(plain), ty: None, const_value: Some(EntryConst::new(c)) })
                .collect();
            outer.push(Box::leak(inner.into_boxed_slice()));
        }
        (Some(types), Some(cs)) => {
            for &t in types {
                let inner: Vec<GenericBenchEntry> = cs
                    .iter()
                    .map(|c| GenericBenchEntry { group: group_ref, bench: BenchEntryRunner::Plain(plain), ty: Some(mk_ty(t)), const_value: Some(EntryConst::new(c)) })
                    .collect();
                outer.push(Box::leak(inner.into_boxed_slice()));
            }
        }
        _ => {}
    }
    unsafe { (*group_ptr).generic_benches = Some(Box::leak(outer.into_boxed_slice())) };
    group_ref
}

/// Sorts a runtime-argument list through the real tree code.
fn sort_args_through_tree(list: &[&'static str], attr: u8, reverse: bool) -> Result<Vec<(String, usize)>, String> {
    let entry = args_entry("f", "zoo", 1, 1, list);
    let res = divan_verif_rt::log::quietly(|| {
        std::panic::catch_unwind(|| verif::tree(&[entry], &[], None, Some((attr, reverse))))
    });
    match res {
        Ok(tree) => {
            let leaf = &tree[0].children[0];
            Ok(leaf.args.clone().unwrap())
        }
        Err(p) => Err(mc_seq::panic_text(p)),
    }
}

// -------------------------------------------------------- (ii') argument lists

fn check_arg_lists(cli: &Cli, r: &Report) {
    // Integer, float and string lists of length <= 4 (5 thorough), every attribute
    // and direction: permutation, reverse, value order, declaration order.
    let pools: [(&str, Vec<&'static str>); 5] = [
        ("integers", vec!["10", "9", "100", "1", "-1", "-20", "007"]),
        ("big integers", vec!["-9223372036854775807", "-9223372036854775808", "9223372036854775807", "-9223372036854775806", "9223372036854775806", "0"]),
        ("floats", vec!["1.5", "-0.5", "1e1", "9.25", "0.0", "2"]),
        ("identifiers", vec!["a10", "a2", "b", "a02", "B", "a"]),
        ("mixed", vec!["2", "1e1", "1f", "a", "-3", "nan"]),
    ];
    let max_len = if cli.thorough { 5 } else { 4 };
    for (pool_name, pool) in pools.iter() {
        let mut lists: Vec<Vec<&'static str>> = vec![vec![]];
        let mut level: Vec<Vec<&'static str>> = vec![vec![]];
        for _ in 0..max_len {
            let mut next = Vec::new();
            for l in &level {
                for &x in pool {
                    let mut l2 = l.clone();
                    l2.push(x);
                    next.push(l2);
                }
            }
            lists.extend(next.iter().cloned());
            level = next;
        }
        for (li, list) in lists.iter().enumerate() {
            if list.is_empty() || !cli.mine(li as u64) {
                continue;
            }
            for attr in 0u8..3 {
                let fwd = sort_args_through_tree(list, attr, false);
                let rev = sort_args_through_tree(list, attr, true);
                r.case(2 * list.len() as u64);
                let (fwd, rev) = match (fwd, rev) {
                    (Ok(f), Ok(v)) => (f, v),
                    (f, v) => {
                        r.violation(Violation {
                            sig: json!({"check":"arg_list","class":"sort-panics","labels":pool_name}),
                            text: format!("sorting arguments {list:?} by attribute {attr} panics: {:?}", f.err().or(v.err())),
                            case: json!({"kind":"argsort","attr":attr,"list":list}),
                        });
                        continue;
                    }
                };
                // permutation of (label, original index) with index consistency
                let mut idx: Vec<usize> = fwd.iter().map(|x| x.1).collect();
                idx.sort_unstable();
                let perm_ok = idx == (0..list.len()).collect::<Vec<_>>() && fwd.iter().all(|(s, i)| list[*i] == s);
                if !perm_ok {
                    r.violation(Violation {
                        sig: json!({"check":"arg_list","class":"not-a-permutation"}),
                        text: format!("sorting arguments {list:?} by attribute {attr} yields {fwd:?}: not a permutation of the list with its original indices"),
                        case: json!({"kind":"argsort","attr":attr,"list":list}),
                    });
                    continue;
                }
                let mut back = rev.clone();
                back.reverse();
                // Reverse must be the exact reverse whenever the forward order is strict;
                // equal-by-every-attribute elements do not exist (location differs).
                if back != fwd {
                    r.violation(Violation {
                        sig: json!({"check":"arg_list","class":"reverse"}),
                        text: format!("arguments {list:?} by attribute {attr}: --sortr gives {rev:?}, which is not the reverse of --sort {fwd:?}"),
                        case: json!({"kind":"argsort","attr":attr,"list":list}),
                    });
                }
                // expected order
                let expected: Option<Vec<usize>> = match (attr, *pool_name) {
                    (2, _) => Some((0..list.len()).collect()),
                    (_, "mixed") => None,
                    (_, "identifiers") => {
                        let mut v: Vec<usize> = (0..list.len()).collect();
                        v.sort_by(|&a, &b| natural_ref(list[a], list[b]).then(a.cmp(&b)));
                        Some(v)
                    }
                    _ => {
                        let mut v: Vec<usize> = (0..list.len()).collect();
                        v.sort_by(|&a, &b| {
                            value_cmp(numeric_value(list[a]).unwrap(), numeric_value(list[b]).unwrap()).then(a.cmp(&b))
                        });
                        Some(v)
                    }
                };
                if let Some(exp) = expected {
                    let got: Vec<usize> = fwd.iter().map(|x| x.1).collect();
                    if got != exp {
                        r.violation(Violation {
                            sig: json!({"check":"arg_list","class":"order","labels":pool_name}),
                            text: format!(
                                "arguments {list:?} sorted by {} are shown as {:?}, the documented order is {:?}",
                                ["kind", "name", "location"][attr as usize],
                                fwd.iter().map(|x| x.0.as_str()).collect::<Vec<_>>(),
                                exp.iter().map(|&i| list[i]).collect::<Vec<_>>()
                            ),
                            case: json!({"kind":"argsort","attr":attr,"list":list}),
                        });
                    }
                }
                r.outcome(format!("{pool_name}:{attr}:{:?}", fwd.iter().map(|x| x.1).collect::<Vec<_>>()));
                r.sample(li as u64 * 3 + attr as u64, || json!({"args": list, "attr": attr, "sorted": fwd}));
            }
        }
    }
}

// ------------------------------------------------------------ (iii) sibling sets

#[derive(Clone, Debug)]
struct Sib {
    kind: u8, // 0 bench, 1 args bench, 2 group module, 3 plain module, 4 generic types, 5 generic consts, 6 plain module in plain module
    name: &'static str,
    file: &'static str,
    line: u32,
    col: u32,
}

struct Built {
    benches: Vec<&'static BenchEntry>,
    groups: Vec<&'static GroupEntry>,
}

fn build(sibs: &[Sib]) -> Built {
    let mut b = Built { benches: Vec::new(), groups: Vec::new() };
    for s in sibs {
        CURRENT_FILE.with(|f| f.set(s.file));
        match s.kind {
            0 => b.benches.push(bench_entry(s.name, "zoo", s.line, s.col)),
            1 => b.benches.push(args_entry(s.name, "zoo", s.line, s.col, &["2", "10", "1"])),
            2 => {
                // module `name` made a group, holding one bench placed after the group
                b.benches.push(bench_entry("inner", leak(&format!("zoo::{}", raw_of(s.name))), s.line + 1, 5));
                b.groups.push(group_entry(s.name, &raw_of(s.name), "zoo", s.line, s.col));
            }
            3 => {
                // plain module: its location is its earliest child's. A second child lies after every
                // sibling (a module whose items are spread over the file, or over several files): the
                // module's position is still its earliest item's, under --sort and under --sortr.
                // The later child is registered first.
                let late_file = if s.file == "zoo.rs" { "zoo.rs" } else { "zz.rs" };
                CURRENT_FILE.with(|f| f.set(late_file));
                b.benches.push(bench_entry("inner_late", leak(&format!("zoo::{}", raw_of(s.name))), 1000 + s.line, s.col + 2));
                CURRENT_FILE.with(|f| f.set(s.file));
                b.benches.push(bench_entry("inner", leak(&format!("zoo::{}", raw_of(s.name))), s.line, s.col));
            }
            6 => {
                // plain module holding a plain module (with the earliest item) and a late item of its own
                let late_file = if s.file == "zoo.rs" { "zoo.rs" } else { "zz.rs" };
                CURRENT_FILE.with(|f| f.set(late_file));
                b.benches.push(bench_entry("late", leak(&format!("zoo::{}", raw_of(s.name))), 2000 + s.line, 3));
                b.benches.push(bench_entry("deep_late", leak(&format!("zoo::{}::sub", raw_of(s.name))), 3000 + s.line, 3));
                CURRENT_FILE.with(|f| f.set(s.file));
                b.benches.push(bench_entry("deep", leak(&format!("zoo::{}::sub", raw_of(s.name))), s.line, s.col));
            }
            4 => b.groups.push(generic_entry(s.name, "zoo", s.line, s.col, Some(&[2, 0, 1]), None)),
            _ => b.groups.push(generic_entry(s.name, "zoo", s.line, s.col, None, Some(&[10, 9, 100, -1]))),
        }
    }
    CURRENT_FILE.with(|f| f.set("zoo.rs"));
    b
}

/// Reference key of a top-level sibling: (is_parent, name, line).
fn sibling_key(s: &Sib) -> (u8, &'static str, (&'static str, u32, u32)) {
    // a plain module's location is that of its earliest child; location = file, line, column
    ((s.kind >= 2) as u8, s.name, (s.file, s.line, s.col))
}

fn reference_cmp(a: &Sib, b: &Sib, attr: u8) -> Ordering {
    let (ka, kb) = (sibling_key(a), sibling_key(b));
    let kind = ka.0.cmp(&kb.0);
    let name = natural_ref(ka.1, kb.1);
    let loc = ka.2.cmp(&kb.2);
    match attr {
        0 => kind.then(name).then(loc),
        1 => name.then(loc).then(kind),
        _ => loc.then(kind).then(name),
    }
}

fn expected_order(sibs: &[Sib], attr: u8) -> Vec<usize> {
    let mut v: Vec<usize> = (0..sibs.len()).collect();
    v.sort_by(|&a, &b| reference_cmp(&sibs[a], &sibs[b], attr));
    v
}

/// Siblings that tie on all three attributes (same location, same kind, names such as `a2` / `a02` that
/// the natural order does not tell apart) have no documented order: any ascending arrangement is right.
fn ascending(sibs: &[Sib], shown: &[String], attr: u8) -> bool {
    let find = |n: &String| sibs.iter().find(|s| s.name == n.as_str());
    shown.windows(2).all(|w| match (find(&w[0]), find(&w[1])) {
        (Some(a), Some(b)) => reference_cmp(a, b, attr) != Ordering::Greater,
        _ => false,
    })
}

fn flatten(nodes: &[NodeMirror], parent: &str, out: &mut Vec<String>) {
    for n in nodes {
        let path = if parent.is_empty() { n.display_name.clone() } else { format!("{parent}::{}", n.display_name) };
        match &n.args {
            Some(args) => {
                for (a, i) in args {
                    out.push(format!("{path}::{a}#{i}"));
                }
            }
            None if n.is_leaf => out.push(path.clone()),
            None => out.push(format!("{path}/")),
        }
        flatten(&n.children, &path, out);
    }
}

fn check_siblings(cli: &Cli, r: &Report) {
    // (`a5` is written with a raw identifier: it sorts under its display name, before `b`, while its raw
    // spelling `r#a5` would come after)
    let names: [&'static str; 6] = ["a2", "a5", "a10", "b", "A", "a02"];
    let kinds: &[u8] = &[0, 1, 2, 3, 4, 5, 6];
    // every set of <= 3 (4 thorough) siblings with distinct names, lines assigned
    // in declaration order or reversed
    let max = if cli.thorough { 4 } else { 3 };
    let mut sets: Vec<Vec<Sib>> = Vec::new();
    fn rec(names: &[&'static str], kinds: &[u8], max: usize, cur: &mut Vec<(u8, usize)>, out: &mut Vec<Vec<(u8, usize)>>) {
        if !cur.is_empty() {
            out.push(cur.clone());
        }
        if cur.len() == max {
            return;
        }
        let start = cur.last().map_or(0, |x| x.1 + 1);
        for ni in start..names.len() {
            for &k in kinds {
                cur.push((k, ni));
                rec(names, kinds, max, cur, out);
                cur.pop();
            }
        }
    }
    let mut combos = Vec::new();
    rec(&names, kinds, max, &mut Vec::new(), &mut combos);
    for combo in combos {
        for line_mode in 0..5 {
            let n = combo.len();
            // mode 4: every sibling at one and the same (file, line, column), as items generated by one
            // macro_rules invocation are. Two items that both have an entry address are then ordered by
            // address (no documented order), so the sets are those with at most one such item next to
            // plain modules: there kind, then name decide, as documented.
            if line_mode == 4 && !(combo.iter().filter(|c| c.0 != 3).count() <= 1 && combo.iter().any(|c| c.0 == 3)) {
                continue;
            }
            if line_mode == 4 && combo.iter().any(|c| c.0 == 6) {
                continue;
            }
            // (`a2` and `a02` are equal in the natural order: at one location and of one kind they tie on
            // all three attributes, and neither their order nor its reverse is documented)
            if line_mode == 4 && combo.iter().any(|c| names[c.1] == "a2") && combo.iter().any(|c| names[c.1] == "a02") {
                continue;
            }
            let sibs: Vec<Sib> = combo
                .iter()
                .enumerate()
                .map(|(i, &(k, ni))| Sib {
                    kind: k,
                    name: names[ni],
                    // mode 3: several source files whose order disagrees with the line order
                    file: if line_mode == 3 { ["z.rs", "a.rs", "m.rs", "b/c.rs"][i % 4] } else { "zoo.rs" },
                    line: match line_mode {
                        0 | 3 => 10 * (i as u32 + 1),
                        4 => 10,
                        1 => 10 * ((n - i) as u32),
                        _ => 10, // all on one line: the column decides
                    },
                    // (modes 0-3: distinct items at distinct locations)
                    col: if line_mode == 2 { 40 - 7 * i as u32 } else { 1 },
                })
                .collect();
            sets.push(sibs);
        }
    }
    for (si, sibs) in sets.iter().enumerate() {
        if !cli.mine(si as u64) {
            continue;
        }
        let built = build(sibs);
        let unsorted = verif::tree(&built.benches, &built.groups, None, None);
        let mut base = Vec::new();
        flatten(&unsorted, "", &mut base);
        base.sort();
        for attr in 0u8..3 {
            let fwd = verif::tree(&built.benches, &built.groups, None, Some((attr, false)));
            let rev = verif::tree(&built.benches, &built.groups, None, Some((attr, true)));
            r.case(sibs.len() as u64 * 2);
            let (mut f, mut v) = (Vec::new(), Vec::new());
            flatten(&fwd, "", &mut f);
            flatten(&rev, "", &mut v);
            let mut fs = f.clone();
            fs.sort();
            let mut vs = v.clone();
            vs.sort();
            if fs != base || vs != base {
                r.violation(Violation {
                    sig: json!({"check":"tree_sort","class":"not-a-permutation"}),
                    text: format!("sorting siblings {sibs:?} by attribute {attr} changed the set of (parent, node, argument): {f:?} vs unsorted {base:?}"),
                    case: json!({"kind":"siblings","attr":attr,"sibs": sibs.iter().map(|s| json!([s.kind, s.name, s.line, s.col, s.file])).collect::<Vec<_>>()}),
                });
                continue;
            }
            // top-level sibling order (children of `zoo`)
            let top = |t: &[NodeMirror]| -> Vec<String> { t[0].children.iter().map(|n| n.display_name.clone()).collect() };
            let got = top(&fwd);
            let mut got_rev = top(&rev);
            got_rev.reverse();
            let line_ties = false;
            let want: Vec<String> = expected_order(sibs, attr).iter().map(|&i| sibs[i].name.to_owned()).collect();
            // Exact location ties between distinct items fall back to entry addresses
            // (meant for generic instantiations); no documented order to compare with.
            if got != want && !(attr == 2 && line_ties) && !(got.len() == want.len() && ascending(sibs, &got, attr)) {
                r.violation(Violation {
                    sig: json!({"check":"tree_sort","class":"order","attr":attr,"line_ties":line_ties}),
                    text: format!("siblings {sibs:?} sorted by {} are shown as {got:?}, the documented order is {want:?}", ["kind", "name", "location"][attr as usize]),
                    case: json!({"kind":"siblings","attr":attr,"sibs": sibs.iter().map(|s| json!([s.kind, s.name, s.line, s.col, s.file])).collect::<Vec<_>>()}),
                });
            }
            if got_rev != got {
                r.violation(Violation {
                    sig: json!({"check":"tree_sort","class":"reverse","attr":attr}),
                    text: format!("siblings {sibs:?}: --sortr {} is not the exact reverse of --sort: {:?} vs {got:?}", ["kind", "name", "location"][attr as usize], top(&rev)),
                    case: json!({"kind":"siblings","attr":attr,"sibs": sibs.iter().map(|s| json!([s.kind, s.name, s.line, s.col, s.file])).collect::<Vec<_>>()}),
                });
            }
            // inside: generic instantiations keep declaration order under `location`,
            // constants sort by their own ordering under `name`, arguments by value.
            for node in &fwd[0].children {
                let sib = sibs.iter().find(|s| s.name == node.display_name).unwrap();
                let inner: Vec<String> = node.children.iter().map(|c| c.display_name.clone()).collect();
                let want_inner: Option<Vec<&str>> = match (sib.kind, attr) {
                    (4, 2) => Some(vec!["TyC", "TyA", "TyB"]),
                    (4, _) => Some(vec!["TyA", "TyB", "TyC"]),
                    (5, 2) => Some(vec!["10", "9", "100", "-1"]),
                    (5, _) => Some(vec!["-1", "9", "10", "100"]),
                    // the two items of a plain module: both benchmarks, `inner` < `inner_late` by name and by location
                    (3, _) => Some(vec!["inner", "inner_late"]),
                    // a benchmark and a module: by kind and by name `late` first, by location the module (its earliest item)
                    (6, 2) => Some(vec!["sub", "late"]),
                    (6, _) => Some(vec!["late", "sub"]),
                    _ => None,
                };
                if let Some(w) = want_inner {
                    if inner != w {
                        r.violation(Violation {
                            sig: json!({"check":"tree_sort","class":"generic-order","attr":attr,"kind":sib.kind}),
                            text: format!("generic benchmark {:?} sorted by {} shows its instantiations as {inner:?}, expected {w:?}", sib.name, ["kind", "name", "location"][attr as usize]),
                            case: json!({"kind":"siblings","attr":attr,"sibs": sibs.iter().map(|s| json!([s.kind, s.name, s.line, s.col, s.file])).collect::<Vec<_>>()}),
                        });
                    }
                }
                if sib.kind == 1 {
                    let labels: Vec<&str> = node.args.as_ref().unwrap().iter().map(|a| a.0.as_str()).collect();
                    let w = if attr == 2 { vec!["2", "10", "1"] } else { vec!["1", "2", "10"] };
                    if labels != w {
                        r.violation(Violation {
                            sig: json!({"check":"tree_sort","class":"arg-order","attr":attr}),
                            text: format!("benchmark {:?} with arguments [2, 10, 1] sorted by {} shows them as {labels:?}, expected {w:?}", sib.name, ["kind", "name", "location"][attr as usize]),
                            case: json!({"kind":"siblings","attr":attr,"sibs": sibs.iter().map(|s| json!([s.kind, s.name, s.line, s.col, s.file])).collect::<Vec<_>>()}),
                        });
                    }
                }
            }
            // The same set with a filter that removes the early item of every two-item plain module: the module is
            // then positioned by the item that is left (its late one), whatever was known about it before filtering.
            // (not in the layout that puts every sibling at one and the same location: the late items would tie as well)
            let one_spot = sibs.len() > 1 && sibs.windows(2).all(|w| (w[0].file, w[0].line, w[0].col) == (w[1].file, w[1].line, w[1].col));
            if sibs.iter().any(|x| x.kind == 3) && sibs.iter().all(|x| x.kind != 6) && !one_spot {
                let mut filters = verif::Filters::new();
                filters.exclude("::inner$", false);
                let moved: Vec<Sib> = sibs
                    .iter()
                    .map(|x| if x.kind == 3 { Sib { kind: 3, name: x.name, file: if x.file == "zoo.rs" { "zoo.rs" } else { "zz.rs" }, line: 1000 + x.line, col: x.col + 2 } } else { Sib { kind: x.kind, name: x.name, file: x.file, line: x.line, col: x.col } })
                    // a group module of the set loses its only item and disappears
                    .filter(|x| x.kind != 2)
                    .collect();
                let ffwd = verif::tree(&built.benches, &built.groups, Some(&filters), Some((attr, false)));
                let frev = verif::tree(&built.benches, &built.groups, Some(&filters), Some((attr, true)));
                r.case(2);
                let fgot = top(&ffwd);
                let mut fgot_rev = top(&frev);
                fgot_rev.reverse();
                let fwant: Vec<String> = expected_order(&moved, attr).iter().map(|&i| moved[i].name.to_owned()).collect();
                if fgot != fwant && !(fgot.len() == fwant.len() && ascending(&moved, &fgot, attr)) || fgot_rev != fgot {
                    r.violation(Violation {
                        sig: json!({"check":"tree_sort","class":"order-after-filter","attr":attr}),
                        text: format!("siblings {sibs:?} with the early item of every plain module filtered out, sorted by {}: shown {fgot:?} (--sortr reversed: {fgot_rev:?}), the documented order over what is left is {fwant:?}", ["kind", "name", "location"][attr as usize]),
                        case: json!({"kind":"siblings","attr":attr,"sibs": sibs.iter().map(|s| json!([s.kind, s.name, s.line, s.col, s.file])).collect::<Vec<_>>()}),
                    });
                }
            }
            r.outcome(format!("sib:{attr}:{got:?}"));
            r.sample(si as u64 * 3 + attr as u64, || json!({"siblings": sibs.iter().map(|s| json!([s.kind, s.name, s.line, s.col, s.file])).collect::<Vec<_>>(), "attr": attr, "order": got}));
        }
    }
}

fn main() {
    let cli = Cli::parse();
    mc_seq::quiet_panics();
    let r = Report::new("c16", &cli);
    if let Some(case) = &cli.case {
        match case["kind"].as_str().unwrap() {
            "natural" | "natural3" => {
                let a = case["a"].as_str().unwrap();
                let b = case["b"].as_str().unwrap();
                let got = verif::natural_cmp(a, b);
                let want = natural_ref(a, b);
                if got != want {
                    r.violation(Violation { sig: json!({"check":"natural_cmp","class":"reference"}), text: format!("natural_cmp({a:?}, {b:?}) = {got:?}, natural order says {want:?}"), case: case.clone() });
                }
                if let Some(c) = case["c"].as_str() {
                    let (ab, bc, ac) = (verif::natural_cmp(a, b), verif::natural_cmp(b, c), verif::natural_cmp(a, c));
                    if ab != Ordering::Greater && bc != Ordering::Greater && ac == Ordering::Greater {
                        r.violation(Violation { sig: json!({"check":"natural_cmp","class":"transitive"}), text: format!("natural_cmp is not transitive on ({a:?}, {b:?}, {c:?})"), case: case.clone() });
                    }
                }
                r.case(1);
            }
            "args" => {
                let labels: Vec<&str> = case["labels"].as_array().unwrap().iter().map(|l| leak(l.as_str().unwrap())).collect();
                let attr = case["attr"].as_u64().unwrap() as u8;
                let n = labels.len();
                let mut bad = false;
                let mut table = Vec::new();
                for i in 0..n {
                    for j in 0..n {
                        let c = verif::cmp_arg_names(attr, &labels, i, j);
                        table.push(format!("{:?}?{:?}={c:?}", labels[i], labels[j]));
                        if i != j {
                            if let (Some(x), Some(y)) = (numeric_value(labels[i]), numeric_value(labels[j])) {
                                let want = value_cmp(x, y);
                                let want = if want == Ordering::Equal { i.cmp(&j) } else { want };
                                if attr != 2 && c != want {
                                    bad = true;
                                }
                            }
                        }
                        if c != verif::cmp_arg_names(attr, &labels, j, i).reverse() {
                            bad = true;
                        }
                    }
                }
                for i in 0..n {
                    for j in 0..n {
                        for k in 0..n {
                            let le = |a: usize, b: usize| verif::cmp_arg_names(attr, &labels, a, b) != Ordering::Greater;
                            if le(i, j) && le(j, k) && !le(i, k) {
                                bad = true;
                            }
                        }
                    }
                }
                if bad {
                    r.violation(Violation { sig: json!({"check":"arg_cmp","class":"replay"}), text: format!("argument comparison on {labels:?} under attribute {attr} violates the documented order / total preorder: {table:?}"), case: case.clone() });
                }
                r.case(1);
            }
            "argsort" => {
                let list: Vec<&'static str> = case["list"].as_array().unwrap().iter().map(|l| leak(l.as_str().unwrap())).collect();
                let attr = case["attr"].as_u64().unwrap() as u8;
                match sort_args_through_tree(&list, attr, false) {
                    Err(msg) => r.violation(Violation { sig: json!({"check":"arg_list","class":"sort-panics"}), text: format!("sorting arguments {list:?} by attribute {attr} panics: {msg}"), case: case.clone() }),
                    Ok(sorted) => {
                        let all_numeric = list.iter().all(|l| numeric_value(l).is_some());
                        if all_numeric && attr != 2 {
                            let mut v: Vec<usize> = (0..list.len()).collect();
                            v.sort_by(|&a, &b| value_cmp(numeric_value(list[a]).unwrap(), numeric_value(list[b]).unwrap()).then(a.cmp(&b)));
                            if v != sorted.iter().map(|x| x.1).collect::<Vec<_>>() {
                                r.violation(Violation { sig: json!({"check":"arg_list","class":"order"}), text: format!("arguments {list:?} sorted by attribute {attr} are shown as {:?}, by value they are {:?}", sorted.iter().map(|x| x.0.as_str()).collect::<Vec<_>>(), v.iter().map(|&i| list[i]).collect::<Vec<_>>()), case: case.clone() });
                            }
                        }
                    }
                }
                r.case(1);
            }
            "siblings" => {
                // re-run the full sibling check restricted to this set
                let sibs: Vec<Sib> = case["sibs"].as_array().unwrap().iter().map(|s| Sib { kind: s[0].as_u64().unwrap() as u8, name: leak(s[1].as_str().unwrap()), line: s[2].as_u64().unwrap() as u32, col: s[3].as_u64().unwrap_or(1) as u32, file: leak(s[4].as_str().unwrap_or("zoo.rs")) }).collect();
                let attr = case["attr"].as_u64().unwrap() as u8;
                let built = build(&sibs);
                let fwd = verif::tree(&built.benches, &built.groups, None, Some((attr, false)));
                let got: Vec<String> = fwd[0].children.iter().map(|n| n.display_name.clone()).collect();
                let want: Vec<String> = expected_order(&sibs, attr).iter().map(|&i| sibs[i].name.to_owned()).collect();
                if got != want {
                    r.violation(Violation { sig: json!({"check":"tree_sort","class":"order","attr":attr}), text: format!("siblings {sibs:?} sorted by attribute {attr} are shown as {got:?}, the documented order is {want:?}"), case: case.clone() });
                }
                r.case(1);
            }
            k => panic!("unknown case kind {k}"),
        }
        r.emit();
    }
    let which = cli.sub.first().map(|s| s.as_str()).unwrap_or("all");
    if cli.part.0 == 0 && (which == "all" || which == "natural") {
        check_natural(&cli, &r);
    }
    if cli.part.0 == 0 && (which == "all" || which == "args") {
        check_args(&cli, &r);
    }
    if which == "all" || which == "lists" {
        check_arg_lists(&cli, &r);
    }
    if which == "all" || which == "siblings" {
        check_siblings(&cli, &r);
    }
    r.set_bounds(json!({
        "natural_cmp": {"alphabet": SYMS, "second_alphabet_max_len_3": SYMS2, "max_len": 4, "transitivity_max_len": if cli.thorough {4} else {3}},
        "arg_labels": {"numeric": NUMERIC, "identifiers": IDENTS, "odd": ODD},
        "arg_lists": {"pools": ["integers","big integers","floats","identifiers","mixed"], "max_len": if cli.thorough {5} else {4}},
        "siblings": {"kinds": ["bench","args bench","group module","plain module (two items, the later one after every sibling)","generic types","generic consts","plain module in a plain module"], "names": ["a2","a10","b","A","a02"], "max": if cli.thorough {4} else {3}, "line_modes": ["declaration order","reversed","one line, distinct columns"]}
    }));
    r.emit();
}
