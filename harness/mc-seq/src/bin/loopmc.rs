//! Engine S over the real sample loop for C01, C02, C03 (single-threaded part;
//! `_local` entry points also with a configured thread count > 1).
//!
//!   loopmc --prop C01|C02|C03 [--tier ..] [--part i/n] [--case <json>]

#[path = "../../../common/loopdrv.rs"]
mod loopdrv;
#[path = "../../../common/oracle.rs"]
mod oracle;

use loopdrv::*;
use mc_seq::{Cli, Report, Violation};
use serde_json::json;

fn check(r: &Report, prop: &str, case: &LoopCase, index: u64) {
    let out = run_case(case);
    if out.horizon {
        r.add(&r.excluded, 1);
        return;
    }
    r.case(out.events.len() as u64);
    let findings = oracle::check_loop(case, &out);
    let calls = out.events.iter().filter(|e| e.kind == divan_verif_rt::log::Kind::Call).count();
    r.outcome(format!(
        "{}:{}:{}:{}:{}",
        case.entry,
        calls.min(12),
        out.report.as_ref().map_or(99, |x| x.durations.len().min(12)),
        out.panic.is_some(),
        out.events.len().min(40)
    ));
    r.sample(index, || json!({"case": case, "events": out.events.len(), "calls": calls, "panic": out.panic}));
    for f in findings {
        if f.prop != prop {
            continue;
        }
        r.violation(Violation {
            sig: json!({"engine":"S","class": f.class, "entry": ENTRY_NAMES[case.entry], "panic_site": case.panic.as_ref().map(|p| SITE_NAMES[p.site])}),
            text: f.text,
            case: serde_json::to_value(case).unwrap(),
        });
    }
}

/// (entry, ishape, oshape) triples that exist.
fn shapes() -> Vec<(usize, usize, usize)> {
    let mut v = Vec::new();
    for entry in 0..6 {
        let ishapes: &[usize] = if entry < 2 { &[0] } else { &[0, 1, 2, 3] };
        for &i in ishapes {
            for o in 0..4 {
                v.push((entry, i, o));
            }
        }
    }
    v
}

/// One representative per code path x closure family (14 classes).
fn path_classes() -> Vec<(usize, usize, usize)> {
    vec![
        (0, 0, 0), // bench, ZST fast path
        (0, 0, 3), // bench, slots (output drops)
        (1, 0, 1), // bench_local, ZST output with Drop
        (2, 1, 2), // values, ZST input, sized no-drop output: fast path
        (2, 3, 3), // values, slots
        (2, 2, 0), // values, inputs only
        (2, 3, 2), // values, inputs only with Drop input moved out
        (3, 2, 3), // local values, slots
        (4, 1, 1), // refs, ZST fast path with both drops
        (4, 3, 3), // refs, slots
        (4, 3, 0), // refs, inputs only + input drop
        (4, 2, 1), // refs, slots with ZST drop output
        (5, 3, 3), // local refs, slots
        (5, 3, 2), // local refs, inputs only
    ]
}

fn enumerate_c01(cli: &Cli, r: &Report, prop: &str) {
    let mut index = 0u64;
    let sizes: &[u32] = if cli.thorough { &[0, 1, 2, 3, 4] } else { &[0, 1, 2, 3] };
    let counts: &[u32] = if cli.thorough { &[0, 1, 2, 3, 5] } else { &[0, 1, 2, 3] };
    for (entry, ishape, oshape) in shapes() {
        // mode: 0 explicit size, 1 tuned, 2 test
        for mode in 0..3 {
            let s_dim: Vec<Option<u32>> = match mode {
                0 => sizes.iter().map(|&s| Some(s)).collect(),
                1 => vec![None],
                _ => vec![None, Some(2)],
            };
            for s in s_dim {
                // tuned: per-call cost giving 0, 1, 2 doublings
                let costs: &[u64] = if mode == 1 { &[101_000, 50_500, 25_250] } else { &[1000] };
                for &call_cost in costs {
                    for &n in counts {
                        let thread_dim: &[usize] = if entry % 2 == 1 { &[1, 2, 3] } else { &[1] };
                        for &threads in thread_dim {
                            let counter_dim: &[u8] = if entry >= 2 { &[0, 1, 3, 12, 15] } else { &[0] };
                            for &input_counters in counter_dim {
                                let mut base = LoopCase::basic(entry, ishape, oshape);
                                base.test = mode == 2;
                                base.sample_size = s;
                                base.sample_count = Some(n);
                                base.threads = threads;
                                base.input_counters = input_counters;
                                base.cost[SITE_CALL] = vec![call_cost];
                                base.horizon = 4000;
                                // no panic
                                index += 1;
                                if cli.mine(index) {
                                    check(r, prop, &base, index);
                                }
                                // panic points on the caller
                                let total_calls = if base.test { 1 } else { (s.unwrap_or(4) * n).min(9) };
                                if total_calls == 0 {
                                    continue;
                                }
                                for site in 0..5 {
                                    let applicable = match site {
                                        SITE_GEN => entry >= 2,
                                        SITE_COUNT => entry >= 2 && input_counters != 0,
                                        SITE_CALL => true,
                                        SITE_DROP_OUT => base.output_drops(),
                                        _ => base.input_drops() && base.by_ref(),
                                    };
                                    if !applicable {
                                        continue;
                                    }
                                    let mut nths = vec![0, 1, total_calls.saturating_sub(1)];
                                    if cli.thorough {
                                        nths.extend([2, 3, total_calls / 2]);
                                    }
                                    nths.sort_unstable();
                                    nths.dedup();
                                    for nth in nths {
                                        if nth >= total_calls {
                                            continue;
                                        }
                                        let mut c = base.clone();
                                        c.panic = Some(PanicPoint { site, thread: 0, nth });
                                        index += 1;
                                        if cli.mine(index) {
                                            check(r, prop, &c, index);
                                        }
                                    }
                                }
                            }
                        }
                    }
                }
            }
        }
    }
    // two input counters of different kinds, one of them replaced by (or replacing) a constant counter of
    // its kind: the other one still sees every input. Every ordered pair of kinds, both orders of the calls.
    if prop == "C01" {
        let bit = |k: usize| -> u8 { [1u8, 4, 8, 2][k] };
        for (entry, ishape, oshape) in [(2usize, 3usize, 3usize), (3, 2, 0), (4, 3, 2), (5, 1, 1)] {
            for a in 0..4usize {
                for b in 0..4usize {
                    if a == b {
                        continue;
                    }
                    for after in [true, false] {
                        for (n, s, test) in [(2u32, Some(2u32), false), (1, None, true)] {
                            let mut c = LoopCase::basic(entry, ishape, oshape);
                            c.input_counters = bit(a) | bit(b);
                            c.bencher_counters = vec![(b, 5)];
                            c.counter_after_input = after;
                            c.sample_count = Some(n);
                            c.sample_size = s;
                            c.test = test;
                            c.horizon = 4000;
                            index += 1;
                            if cli.mine(index) {
                                check(r, prop, &c, index);
                            }
                        }
                    }
                }
            }
        }
    }
    r.set_bounds(json!({
        "entries": 6, "input_shapes": 4, "output_shapes": 4, "sample_size": sizes, "sample_count": counts,
        "modes": ["explicit","tuned(0,1,2 doublings)","test"], "local_thread_counts": [1,2,3],
        "input_counters": ["none","bytes","bytes+items","chars+cycles","all four kinds"],
        "panic_points": "site in {generator,input_counter,benched,drop_output,drop_input} x nth in {0,1,last} (thorough: +2,3,mid) on the caller",
        "threads": "T=1 here (T>1 for _local only, which must stay on the caller); T in {2,3} under loom (engine L)"
    }));
}

fn enumerate_c02(cli: &Cli, r: &Report) {
    let nscripts = ALLOC_SCRIPTS.len().min(6); // the full product runs over the first six scripts
    let mut index = 0u64;
    for (entry, ishape, oshape) in path_classes() {
        for s in [1u32, 2] {
            let total = nscripts.pow(5);
            for code in 0..total {
                let mut alloc = [0usize; 5];
                let mut c = code;
                for a in alloc.iter_mut() {
                    *a = c % nscripts;
                    c /= nscripts;
                }
                // Sites that never run for this shape contribute nothing: fix them to 0.
                let mut base = LoopCase::basic(entry, ishape, oshape);
                if entry < 2 && (alloc[SITE_GEN] != 0 || alloc[SITE_COUNT] != 0) {
                    continue;
                }
                if !base.output_drops() && alloc[SITE_DROP_OUT] != 0 {
                    continue;
                }
                if !(base.input_drops() && base.by_ref()) && alloc[SITE_DROP_IN] != 0 {
                    continue;
                }
                base.alloc = alloc;
                base.sample_size = Some(s);
                base.sample_count = Some(2);
                base.input_counters = if entry >= 2 { 1 } else { 0 };
                index += 1;
                if cli.mine(index) {
                    check(r, "C02", &base, index);
                }
            }
        }
    }
    // Every shape once with one fixed script per site, explicit and tuned.
    for (entry, ishape, oshape) in shapes() {
        for tuned in [false, true] {
            let mut base = LoopCase::basic(entry, ishape, oshape);
            base.alloc = [1, 2, 4, 3, 5];
            base.sample_count = Some(3);
            base.sample_size = if tuned { None } else { Some(3) };
            base.cost[SITE_CALL] = vec![if tuned { 30_000 } else { 1000 }];
            base.input_counters = if entry >= 2 { 3 } else { 0 };
            index += 1;
            if cli.mine(index) {
                check(r, "C02", &base, index);
            }
        }
    }
    // Allocation that stops after the first rounds (lazy initialisation, amortised growth) under
    // automatic sample size: the samples that are kept performed none, the discarded ones did.
    for (entry, ishape, oshape) in shapes() {
        for until in [1u64, 2, 4] {
            for threads in [1usize, 2] {
                for site in [SITE_CALL, SITE_GEN, SITE_DROP_OUT] {
                    let mut base = LoopCase::basic(entry, ishape, oshape);
                    if site == SITE_GEN && entry < 2 || site == SITE_DROP_OUT && !base.output_drops() {
                        continue;
                    }
                    base.alloc[site] = 2;
                    base.alloc_until_round = Some(until);
                    base.threads = threads;
                    base.sample_count = Some(2);
                    base.sample_size = None;
                    base.cost[SITE_CALL] = vec![30_000];
                    index += 1;
                    if cli.mine(index) {
                        check(r, "C02", &base, index);
                    }
                }
            }
        }
    }
    quiet_first_rounds(cli, r, "C02", &mut index);
    // Samples whose timed section only resizes or only frees (no `alloc` in it at all).
    for (entry, ishape, oshape) in shapes() {
        for script in [3usize, 6] {
            for threads in [1usize, 2] {
                let mut base = LoopCase::basic(entry, ishape, oshape);
                base.alloc[SITE_CALL] = script;
                base.alloc[SITE_GEN] = 1;
                base.threads = threads;
                base.sample_count = Some(2);
                base.sample_size = Some(2);
                index += 1;
                if cli.mine(index) {
                    check(r, "C02", &base, index);
                }
            }
        }
    }
    // A time budget that ends the run while the sample size is still being tuned: the samples of the newest
    // tuning round are the reported ones and must carry their allocation figures like any other.
    for (entry, ishape, oshape) in shapes() {
        for max in [1u64, 20, 60] {
            for threads in [1usize, 2] {
                let mut base = LoopCase::basic(entry, ishape, oshape);
                base.alloc = [1, 2, 4, 3, 5];
                base.threads = threads;
                base.sample_count = Some(2);
                base.sample_size = None;
                base.max_time_ns = Some(max);
                base.cost[SITE_CALL] = vec![3_000];
                base.cost[SITE_GEN] = vec![if entry >= 2 { 2_000 } else { 0 }];
                base.input_counters = if entry >= 2 { 1 } else { 0 };
                index += 1;
                if cli.mine(index) {
                    check(r, "C02", &base, index);
                }
            }
        }
    }
    // Threads that perform no allocator operation at all next to threads that do: figures must stay with
    // the thread (and sample) that produced them, whatever the position of the silent thread.
    for (entry, ishape, oshape) in [(0usize, 0usize, 0usize), (2, 2, 0), (2, 3, 3), (4, 2, 3)] {
        for threads in [2usize, 3] {
            for mask in 1u32..(1 << threads) - 1 {
                for n in [1u32, 2 * threads as u32] {
                    let mut base = LoopCase::basic(entry, ishape, oshape);
                    base.alloc = [2, 0, 2, 3, 1];
                    base.alloc_threads = Some(mask);
                    base.threads = threads;
                    base.sample_count = Some(n);
                    base.sample_size = Some(2);
                    index += 1;
                    if cli.mine(index) {
                        check(r, "C02", &base, index);
                    }
                }
            }
        }
    }
    r.set_bounds(json!({
        "budget_during_tuning": "every shape x max_time in {1,20,60} ns x T in {1,2}, automatic sample size, allocation scripts at every site",
        "silent_threads": "4 entry/shape classes x T in {2,3} x every proper non-empty subset of allocating threads x 1 or 2 rounds (real threads)",
        "quiet_first_rounds": "every shape x allocation only from round 1/2/3 on x T in {1,2,3} x site in {call, generator, output drop} x {explicit, automatic} sample size",
        "lazy_allocation": "every shape x allocation only before round 1/2/4 x T in {1,2} x site in {call, generator, output drop}, automatic sample size",
        "alloc_scripts_per_site": nscripts, "sites": SITE_NAMES, "path_classes": path_classes().len(),
        "sample_sizes": [1,2], "plus": "all 72 (entry,shape) combinations with one fixed script vector, explicit and tuned size"
    }));
}

/// Allocation that only starts after one, two or three quiet rounds (a cache filled late, a buffer that grows
/// once the input gets large): every later sample must still start from a cleared tally and carry exactly its
/// own thread's operations. Explicit and automatic sample size, T in {1, 2, 3}, at the call, in the generator
/// and in the output destructor.
fn quiet_first_rounds(cli: &Cli, r: &Report, prop: &str, index: &mut u64) {
    for (entry, ishape, oshape) in shapes() {
        for from in [1u64, 2, 3] {
            for threads in [1usize, 2, 3] {
                for site in [SITE_CALL, SITE_GEN, SITE_DROP_OUT] {
                    for tuned in [false, true] {
                        let mut base = LoopCase::basic(entry, ishape, oshape);
                        if site == SITE_GEN && entry < 2 || site == SITE_DROP_OUT && !base.output_drops() {
                            continue;
                        }
                        if threads == 3 && (tuned || site != SITE_CALL) {
                            continue;
                        }
                        base.alloc[site] = 2;
                        base.alloc_from_round = Some(from);
                        base.threads = threads;
                        base.sample_count = Some(5 * threads as u32);
                        base.sample_size = if tuned { None } else { Some(1) };
                        base.cost[SITE_CALL] = vec![if tuned { 30_000 } else { 1000 }];
                        *index += 1;
                        if cli.mine(*index) {
                            check(r, prop, &base, *index);
                        }
                    }
                }
            }
        }
    }
}

/// C08 on real threads (one schedule per case; the loom exploration decides the ordering clauses): what
/// does not depend on the schedule - every sample carries the tally of the thread at its position, also
/// next to threads that perform no allocator operation - for T in {2, 3}, one and two rounds.
fn enumerate_c08_threads(cli: &Cli, r: &Report) {
    let mut index = 1_000_000u64;
    quiet_first_rounds(cli, r, "C08", &mut index);
    for (entry, ishape, oshape) in [(0usize, 0usize, 0usize), (2, 2, 0), (2, 3, 3), (4, 2, 3), (4, 3, 1)] {
        for threads in [2usize, 3] {
            for mask in 1u32..(1 << threads) {
                for n in [1u32, 2 * threads as u32] {
                    for s in [1u32, 2] {
                        let mut base = LoopCase::basic(entry, ishape, oshape);
                        base.alloc = [2, 0, 2, 3, 1];
                        base.alloc_threads = if mask == (1 << threads) - 1 { None } else { Some(mask) };
                        base.threads = threads;
                        base.sample_count = Some(n);
                        base.sample_size = Some(s);
                        base.input_counters = if entry >= 2 { 1 } else { 0 };
                        index += 1;
                        if cli.mine(index) {
                            check(r, "C08", &base, index);
                        }
                    }
                }
            }
        }
    }
}

fn figure_pairs() -> Vec<(u32, u32)> {
    let mut v = Vec::new();
    for n in [1u32, 2, 3, 16, 65535, 65536, 65537, 1 << 20] {
        for s in [1u32, 2, 65535, 65536, 65537, 1 << 28, 1 << 31, u32::MAX] {
            v.push((n, s));
        }
    }
    v
}

fn check_figures(r: &Report, n: u32, s: u32) {
    use divan::verif::{InjectedCounter, InjectedSample};
    let samples: Vec<InjectedSample> = (0..n).map(|i| InjectedSample { duration: 1000 * s as u128 + (i % 7) as u128, tally: None }).collect();
    let counters: [InjectedCounter; 4] = Default::default();
    let got = std::panic::catch_unwind(|| divan::verif::stats_of(s, &samples, &counters)).unwrap_or_else(|e| Err(mc_seq::panic_text(e)));
    r.case(1);
    let want = (n, n as u64 * s as u64);
    let ok = matches!(&got, Ok(st) if (st.sample_count, st.iter_count) == want);
    r.outcome(format!("figures:{ok}"));
    if !ok {
        r.violation(Violation {
            sig: json!({"check":"figures","class": if got.is_ok() { "wrong" } else { "panic" }}),
            text: format!("{n} recorded samples of {s} iterations each are reported as {:?}, expected samples = {} and iters = {}", got.map(|st| (st.sample_count, st.iter_count)), want.0, want.1),
            case: json!({"kind":"figures","n":n,"s":s}),
        });
    }
}

fn enumerate_c03(cli: &Cli, r: &Report) {
    let mut index = 0u64;
    let ns: Vec<Option<u32>> = if cli.thorough {
        vec![None, Some(0), Some(1), Some(2), Some(3), Some(5), Some(7), Some(100), Some(257), Some(1000)]
    } else {
        vec![None, Some(0), Some(1), Some(2), Some(3), Some(5), Some(100), Some(257)]
    };
    let ss: &[u32] = if cli.thorough { &[0, 1, 2, 3, 7, 1000] } else { &[0, 1, 2, 3, 1000] };
    for (entry, ishape, oshape) in [(0, 0, 0), (1, 0, 3), (2, 2, 0), (2, 3, 3), (3, 1, 1), (4, 3, 3), (4, 2, 2), (5, 3, 1), (5, 0, 0)] {
        for n in &ns {
            for &s in ss {
                for test in [false, true] {
                    for max_zero in [false, true] {
                        let thread_dim: &[usize] = if entry % 2 == 1 { &[1, 2, 4] } else { &[1] };
                        for &threads in thread_dim {
                            let mut c = LoopCase::basic(entry, ishape, oshape);
                            c.sample_count = *n;
                            c.sample_size = Some(s);
                            c.test = test;
                            c.threads = threads;
                            c.max_time_ns = if max_zero { Some(0) } else { None };
                            c.horizon = 10_000;
                            index += 1;
                            if cli.mine(index) {
                                check(r, "C03", &c, index);
                            }
                        }
                    }
                }
            }
        }
    }
    // the samples / iters figures for counts no loop run can afford: n recorded samples of size s are placed
    // in a real context and the real compute_stats must report n and n * s (a 64-bit figure)
    for (n, s) in figure_pairs() {
        index += 1;
        if cli.mine(index) {
            check_figures(r, n, s);
        }
    }
    r.set_bounds(json!({
        "figures": "samples / iters of injected collections: n in {1,2,3,16,65535,65536,65537,1048576} x s in {1,2,65535,65536,65537,2^28,2^31,2^32-1}",
        "sample_count": ns, "sample_size": ss, "modes": ["bench","test"], "max_time": ["unset", 0],
        "entries": "all six entry points over 9 (entry, shape) combinations", "threads": "T=1 (T in {2,3} under loom, engine L); _local with configured 1,2,4"
    }));
}

fn main() {
    let cli = Cli::parse();
    mc_seq::quiet_panics();
    let mut prop = "C01".to_owned();
    let mut it = cli.sub.iter();
    while let Some(a) = it.next() {
        if a == "--prop" {
            prop = it.next().expect("--prop").clone();
        }
    }
    let r = Report::new(&format!("loopmc-{prop}"), &cli);
    if let Some(case) = &cli.case {
        if case["kind"] == "figures" {
            check_figures(&r, case["n"].as_u64().unwrap() as u32, case["s"].as_u64().unwrap() as u32);
            r.emit();
        }
        let case: LoopCase = serde_json::from_value(case.clone()).expect("LoopCase");
        check(&r, &prop, &case, 0);
        r.emit();
    }
    match prop.as_str() {
        "C01" => enumerate_c01(&cli, &r, &prop),
        "C08" => {
            enumerate_c01(&cli, &r, &prop);
            enumerate_c08_threads(&cli, &r);
        }
        "C02" => enumerate_c02(&cli, &r),
        "C03" => enumerate_c03(&cli, &r),
        p => panic!("unknown property {p}"),
    }
    r.emit();
}
