//! C09 — AllocProfiler is a transparent wrapper around the wrapped allocator.
//!
//! Public API only. The process-global allocator is a tripwire that counts the
//! allocations a thread makes while "armed"; the wrapped allocator is a mock with
//! a preallocated call log and scripted return values. Request sequences are
//! enumerated exhaustively over a small alphabet and run in four thread phases.

use divan::AllocProfiler;
use mc_seq::{Cli, Report, Violation};
use serde_json::json;
use std::alloc::{GlobalAlloc, Layout, System};
use std::cell::Cell;
use std::sync::atomic::{AtomicU64, AtomicUsize, Ordering::SeqCst};

// ------------------------------------------------------------------ tripwire

struct Tripwire;

thread_local! {
    static ARMED: Cell<bool> = const { Cell::new(false) };
    static TRIPS: Cell<u64> = const { Cell::new(0) };
}

unsafe impl GlobalAlloc for Tripwire {
    unsafe fn alloc(&self, layout: Layout) -> *mut u8 {
        let _ = ARMED.try_with(|a| {
            if a.get() {
                let _ = TRIPS.try_with(|t| t.set(t.get() + 1));
            }
        });
        System.alloc(layout)
    }
    unsafe fn dealloc(&self, ptr: *mut u8, layout: Layout) {
        let _ = ARMED.try_with(|a| {
            if a.get() {
                let _ = TRIPS.try_with(|t| t.set(t.get() + 1));
            }
        });
        System.dealloc(ptr, layout)
    }
    unsafe fn realloc(&self, ptr: *mut u8, layout: Layout, new_size: usize) -> *mut u8 {
        let _ = ARMED.try_with(|a| {
            if a.get() {
                let _ = TRIPS.try_with(|t| t.set(t.get() + 1));
            }
        });
        System.realloc(ptr, layout, new_size)
    }
}

#[global_allocator]
static GLOBAL: Tripwire = Tripwire;

// ------------------------------------------------- the C heap below GlobalAlloc
//
// Allocations that bypass Rust's global allocator (glibc registering a thread-local destructor with
// `calloc`, for instance) are invisible to the tripwire above. The process therefore also replaces the
// malloc family (glibc resolves its own internal calls to the replacement, as documented under
// "Replacing malloc") and counts calls made by an armed thread in the same counter.

mod c_heap {
    use super::{ARMED, TRIPS};
    use std::ffi::{c_int, c_void};

    extern "C" {
        fn __libc_malloc(size: usize) -> *mut c_void;
        fn __libc_calloc(n: usize, size: usize) -> *mut c_void;
        fn __libc_realloc(p: *mut c_void, size: usize) -> *mut c_void;
        fn __libc_memalign(align: usize, size: usize) -> *mut c_void;
    }

    #[inline]
    fn trip() {
        let _ = ARMED.try_with(|a| {
            if a.get() {
                let _ = TRIPS.try_with(|t| t.set(t.get() + 1));
            }
        });
    }

    #[no_mangle]
    pub unsafe extern "C" fn malloc(size: usize) -> *mut c_void {
        trip();
        __libc_malloc(size)
    }
    #[no_mangle]
    pub unsafe extern "C" fn calloc(n: usize, size: usize) -> *mut c_void {
        trip();
        __libc_calloc(n, size)
    }
    #[no_mangle]
    pub unsafe extern "C" fn realloc(p: *mut c_void, size: usize) -> *mut c_void {
        trip();
        __libc_realloc(p, size)
    }
    #[no_mangle]
    pub unsafe extern "C" fn memalign(align: usize, size: usize) -> *mut c_void {
        trip();
        __libc_memalign(align, size)
    }
    #[no_mangle]
    pub unsafe extern "C" fn aligned_alloc(align: usize, size: usize) -> *mut c_void {
        trip();
        __libc_memalign(align, size)
    }
    #[no_mangle]
    pub unsafe extern "C" fn posix_memalign(out: *mut *mut c_void, align: usize, size: usize) -> c_int {
        trip();
        let p = __libc_memalign(align, size);
        if p.is_null() {
            12 // ENOMEM
        } else {
            *out = p;
            0
        }
    }
}

// ------------------------------------------------- faults while a request runs
//
// The mock hands out pointers that do not point to memory. A transparent wrapper only passes them on;
// one that reads or writes through them (e.g. zeroing a block itself instead of forwarding
// `alloc_zeroed`) dies with SIGSEGV / SIGBUS. The handler turns that into a verdict: it prints the RESULT
// line prepared for the case that is running and exits with the violation status.

mod fault {
    use std::ffi::{c_int, c_void};
    use std::sync::atomic::{AtomicUsize, Ordering::SeqCst};

    const CAP: usize = 8192;
    static mut MESSAGE: [u8; CAP] = [0; CAP];
    static LEN: AtomicUsize = AtomicUsize::new(0);

    #[repr(C)]
    struct SigAction {
        handler: usize,
        mask: [u64; 16],
        flags: c_int,
        restorer: usize,
    }

    extern "C" {
        fn sigaction(signum: c_int, act: *const SigAction, old: *mut SigAction) -> c_int;
        fn write(fd: c_int, buf: *const c_void, n: usize) -> isize;
        fn _exit(code: c_int) -> !;
    }

    extern "C" fn on_fault(_: c_int) {
        unsafe {
            let n = LEN.load(SeqCst);
            if n > 0 {
                let p = std::ptr::addr_of!(MESSAGE) as *const c_void;
                write(1, p, n);
                _exit(1);
            }
            _exit(139);
        }
    }

    pub fn install() {
        let act = SigAction { handler: on_fault as usize, mask: [0; 16], flags: 0, restorer: 0 };
        unsafe {
            sigaction(11, &act, std::ptr::null_mut()); // SIGSEGV
            sigaction(7, &act, std::ptr::null_mut()); // SIGBUS
        }
    }

    /// Prepares the line printed if the requests issued next fault.
    pub fn arm(line: &str) {
        let bytes = line.as_bytes();
        let n = bytes.len().min(CAP);
        unsafe {
            let p = std::ptr::addr_of_mut!(MESSAGE) as *mut u8;
            std::ptr::copy_nonoverlapping(bytes.as_ptr(), p, n);
        }
        LEN.store(n, SeqCst);
    }

    pub fn disarm() {
        LEN.store(0, SeqCst);
    }
}

// ---------------------------------------------------------------------- mock

const LOG_CAP: usize = 16;
/// Each record: op, size, align, ptr-or-0, new_size-or-0
static LOG: [[AtomicU64; 5]; LOG_CAP] = {
    #[allow(clippy::declare_interior_mutable_const)]
    const Z: AtomicU64 = AtomicU64::new(0);
    #[allow(clippy::declare_interior_mutable_const)]
    const R: [AtomicU64; 5] = [Z, Z, Z, Z, Z];
    [R; LOG_CAP]
};
static LOG_LEN: AtomicUsize = AtomicUsize::new(0);
/// Scripted return pointers for the next calls (consumed in order).
static RETURNS: [AtomicU64; LOG_CAP] = {
    #[allow(clippy::declare_interior_mutable_const)]
    const Z: AtomicU64 = AtomicU64::new(0);
    [Z; LOG_CAP]
};

struct Mock;

impl Mock {
    fn record(&self, op: u64, layout: Layout, ptr: u64, new_size: u64) -> u64 {
        let i = LOG_LEN.fetch_add(1, SeqCst);
        if i < LOG_CAP {
            LOG[i][0].store(op, SeqCst);
            LOG[i][1].store(layout.size() as u64, SeqCst);
            LOG[i][2].store(layout.align() as u64, SeqCst);
            LOG[i][3].store(ptr, SeqCst);
            LOG[i][4].store(new_size, SeqCst);
            RETURNS[i].load(SeqCst)
        } else {
            0
        }
    }
}

unsafe impl GlobalAlloc for Mock {
    unsafe fn alloc(&self, layout: Layout) -> *mut u8 {
        self.record(0, layout, 0, 0) as *mut u8
    }
    unsafe fn alloc_zeroed(&self, layout: Layout) -> *mut u8 {
        self.record(1, layout, 0, 0) as *mut u8
    }
    unsafe fn realloc(&self, ptr: *mut u8, layout: Layout, new_size: usize) -> *mut u8 {
        self.record(2, layout, ptr as u64, new_size as u64) as *mut u8
    }
    unsafe fn dealloc(&self, ptr: *mut u8, layout: Layout) {
        self.record(3, layout, ptr as u64, 0);
    }
}

static PROFILER: AllocProfiler<Mock> = AllocProfiler::new(Mock);

// ------------------------------------------------------------------ requests

#[derive(Clone, Copy, Debug, PartialEq, Eq)]
struct Req {
    op: u64, // 0 alloc, 1 alloc_zeroed, 2 realloc, 3 dealloc
    size: usize,
    align: usize,
    ptr: u64,
    new_size: usize,
    ret: u64,
}

const OP_NAMES: [&str; 4] = ["alloc", "alloc_zeroed", "realloc", "dealloc"];

fn layouts(full: bool) -> Vec<(usize, usize)> {
    let sizes: &[usize] = if full { &[0, 1, 8, 4096, 1 << 40, isize::MAX as usize - 4095] } else { &[0, 8, 1 << 40] };
    let aligns: &[usize] = if full { &[1, 8, 4096] } else { &[1, 4096] };
    let mut v = Vec::new();
    for &s in sizes {
        for &a in aligns {
            if Layout::from_size_align(s, a).is_ok() {
                v.push((s, a));
            }
        }
    }
    v
}

fn requests(full: bool) -> Vec<Req> {
    let rets: &[u64] = &[0, 0x1000, 0x7fff_0000_2000];
    let ptrs: &[u64] = if full { &[0x1000, 0xdead_b000] } else { &[0x1000] };
    let new_sizes: &[usize] = if full { &[0, 1, 8, 4096, 1 << 40, isize::MAX as usize - 4095] } else { &[0, 24, 1 << 40] };
    let mut v = Vec::new();
    for (size, align) in layouts(full) {
        for &ret in rets {
            v.push(Req { op: 0, size, align, ptr: 0, new_size: 0, ret });
            v.push(Req { op: 1, size, align, ptr: 0, new_size: 0, ret });
            for &ptr in ptrs {
                for &new_size in new_sizes {
                    v.push(Req { op: 2, size, align, ptr, new_size, ret });
                }
            }
        }
        for &ptr in ptrs {
            v.push(Req { op: 3, size, align, ptr, new_size: 0, ret: 0 });
        }
    }
    v
}

/// Issues the sequence through the profiler on the current thread, armed.
/// Returns (returned pointers, trips).
fn issue(seq: &[Req]) -> ([u64; 4], u64) {
    let mut out = [0u64; 4];
    LOG_LEN.store(0, SeqCst);
    for (i, r) in seq.iter().enumerate() {
        RETURNS[i].store(r.ret, SeqCst);
    }
    let _ = TRIPS.try_with(|t| t.set(0));
    let _ = ARMED.try_with(|a| a.set(true));
    for (i, r) in seq.iter().enumerate() {
        let layout = unsafe { Layout::from_size_align_unchecked(r.size, r.align) };
        out[i] = unsafe {
            match r.op {
                0 => PROFILER.alloc(layout) as u64,
                1 => PROFILER.alloc_zeroed(layout) as u64,
                2 => PROFILER.realloc(r.ptr as *mut u8, layout, r.new_size) as u64,
                _ => {
                    PROFILER.dealloc(r.ptr as *mut u8, layout);
                    0
                }
            }
        };
    }
    let _ = ARMED.try_with(|a| a.set(false));
    let trips = TRIPS.try_with(|t| t.get()).unwrap_or(0);
    (out, trips)
}

/// Compares the mock's log with the request sequence. Allocation-free.
fn verdict(seq: &[Req], out: &[u64; 4], trips: u64) -> Option<(&'static str, usize)> {
    let n = LOG_LEN.load(SeqCst);
    if n != seq.len() {
        return Some(("call-count", n));
    }
    for (i, r) in seq.iter().enumerate() {
        let rec: [u64; 5] = [0, 1, 2, 3, 4].map(|k| LOG[i][k].load(SeqCst));
        let want = [r.op, r.size as u64, r.align as u64, if r.op >= 2 { r.ptr } else { 0 }, if r.op == 2 { r.new_size as u64 } else { 0 }];
        if rec != want {
            return Some(("forwarded-arguments", i));
        }
        if r.op != 3 && out[i] != r.ret {
            return Some(("return-value", i));
        }
    }
    if trips != 0 {
        return Some(("allocates", trips as usize));
    }
    None
}

const PHASES: [&str; 4] = ["fresh_thread", "warmed_thread", "tls_destructor_registered_before_first_use", "tls_destructor_registered_after_first_use"];

struct AtExit {
    seq: Vec<Req>,
    slot: &'static std::sync::Mutex<Option<(([u64; 4], u64), Option<(&'static str, usize)>)>>,
}

impl Drop for AtExit {
    fn drop(&mut self) {
        // Runs while the thread is being torn down.
        let res = issue(&self.seq);
        let v = verdict(&self.seq, &res.0, res.1);
        if let Ok(mut s) = self.slot.lock() {
            *s = Some((res, v));
        }
    }
}

thread_local! {
    static AT_EXIT: std::cell::RefCell<Option<AtExit>> = const { std::cell::RefCell::new(None) };
}

static SLOT: std::sync::Mutex<Option<(([u64; 4], u64), Option<(&'static str, usize)>)>> = std::sync::Mutex::new(None);
/// Serialises the cases: the mock log is global.
static SERIAL: std::sync::Mutex<()> = std::sync::Mutex::new(());

fn run_in_phase(seq: &[Req], phase: usize) -> (([u64; 4], u64), Option<(&'static str, usize)>) {
    let _serial = SERIAL.lock().unwrap();
    let seq_owned = seq.to_vec();
    let warm = Req { op: 0, size: 1, align: 1, ptr: 0, new_size: 0, ret: 0x10 };
    std::thread::spawn(move || match phase {
        0 => {
            let res = issue(&seq_owned);
            let v = verdict(&seq_owned, &res.0, res.1);
            (res, v)
        }
        1 => {
            issue(&[warm]);
            let res = issue(&seq_owned);
            let v = verdict(&seq_owned, &res.0, res.1);
            (res, v)
        }
        2 | 3 => {
            *SLOT.lock().unwrap() = None;
            if phase == 3 {
                issue(&[warm]);
            }
            AT_EXIT.with(|a| *a.borrow_mut() = Some(AtExit { seq: seq_owned.clone(), slot: &SLOT }));
            if phase == 2 {
                issue(&[warm]);
            }
            (([0; 4], 0), Some(("pending", 0)))
        }
        _ => unreachable!(),
    })
    .join()
    .map(|r| {
        if phase >= 2 {
            SLOT.lock().unwrap().take().unwrap_or((([0; 4], 0), Some(("destructor-did-not-run", 0))))
        } else {
            r
        }
    })
    .unwrap_or((([0; 4], 0), Some(("panicked", 0))))
}

fn req_json(r: &Req) -> serde_json::Value {
    json!({"op": OP_NAMES[r.op as usize], "size": r.size.to_string(), "align": r.align, "ptr": r.ptr.to_string(), "new_size": r.new_size.to_string(), "ret": r.ret.to_string()})
}

fn req_from(v: &serde_json::Value) -> Req {
    let n = |k: &str| v[k].as_str().map(|s| s.parse::<u64>().unwrap()).or(v[k].as_u64()).unwrap();
    Req {
        op: OP_NAMES.iter().position(|o| *o == v["op"].as_str().unwrap()).unwrap() as u64,
        size: n("size") as usize,
        align: n("align") as usize,
        ptr: n("ptr"),
        new_size: n("new_size") as usize,
        ret: n("ret"),
    }
}

fn check(r: &Report, seq: &[Req], phase: usize, index: u64) {
    let case = json!({"phase": phase, "requests": seq.iter().map(req_json).collect::<Vec<_>>()});
    fault::arm(&format!(
        "\nRESULT {}\n",
        json!({"name": "c09", "states": 1, "transitions": 1, "traces_validated_against_impl": 1, "evaluations": 1, "excluded": 0,
               "exhaustive": false, "distinct_outcomes": 1, "samples": [], "bounds": {}, "wall_s": 0.0,
               "violations": [{"sig": {"class": "touches-returned-pointer"},
                               "text": format!("AllocProfiler is not transparent in phase {}: while serving {:?} the process faulted (SIGSEGV / SIGBUS): the profiler read or wrote through a pointer it got from the wrapped allocator (or was given by the caller) instead of only passing it on", PHASES[phase], seq.iter().map(req_json).collect::<Vec<_>>()),
                               "case": case}]})
    ));
    let (res, v) = run_in_phase(seq, phase);
    fault::disarm();
    r.case(seq.len() as u64);
    r.outcome(format!("{phase}:{:?}:{}", seq.iter().map(|q| q.op).collect::<Vec<_>>(), res.0.iter().filter(|p| **p != 0).count()));
    r.sample(index, || json!({"phase": PHASES[phase], "requests": seq.iter().map(req_json).collect::<Vec<_>>(), "returned": res.0[..seq.len()].iter().map(|p| p.to_string()).collect::<Vec<_>>()}));
    if let Some((class, at)) = v {
        let op = if class == "call-count" || class == "allocates" { "-" } else { OP_NAMES[seq[at.min(seq.len() - 1)].op as usize] };
        r.violation(Violation {
            sig: json!({"class": class, "op": op}),
            text: format!(
                "AllocProfiler is not transparent ({class} at {at}) in phase {}: requests {:?}; wrapped allocator saw {} calls, first records {:?}; returned {:?}; allocations made by the thread meanwhile: {}",
                PHASES[phase],
                seq.iter().map(|q| format!("{}(size={},align={},ptr={:#x},new={}) -> {:#x}", OP_NAMES[q.op as usize], q.size, q.align, q.ptr, q.new_size, q.ret)).collect::<Vec<_>>(),
                LOG_LEN.load(SeqCst),
                (0..seq.len().min(LOG_CAP)).map(|i| [0, 1, 2, 3, 4].map(|k| LOG[i][k].load(SeqCst))).collect::<Vec<_>>(),
                &res.0[..seq.len()],
                res.1
            ),
            case: json!({"phase": phase, "requests": seq.iter().map(req_json).collect::<Vec<_>>()}),
        });
    }
}

fn main() {
    fault::install();
    let cli = Cli::parse();
    mc_seq::quiet_panics();
    let r = Report::new("c09", &cli);
    if let Some(case) = &cli.case {
        let seq: Vec<Req> = case["requests"].as_array().unwrap().iter().map(req_from).collect();
        check(&r, &seq, case["phase"].as_u64().unwrap() as usize, 0);
        r.emit();
    }
    let full = requests(true);
    let reduced = requests(false);
    let mut index = 0u64;
    // depth 1: every request of the full alphabet in every phase
    for q in &full {
        for phase in 0..4 {
            index += 1;
            if cli.mine(index) {
                check(&r, &[*q], phase, index);
            }
        }
    }
    // depth 2 over the reduced alphabet, every phase; depth 3 (thorough) over one layout
    for a in &reduced {
        for b in &reduced {
            for phase in 0..4 {
                index += 1;
                if cli.mine(index) {
                    check(&r, &[*a, *b], phase, index);
                }
            }
        }
    }
    // sequences of the largest valid requests (which any allocator refuses): sums of their sizes leave
    // the 64-bit range after two or three of them - the build has overflow checks on
    let huge: Vec<Req> = full.iter().copied().filter(|q| q.align == 1 && (q.size > 1 << 62 || q.new_size > 1 << 62) && q.ret == 0).collect();
    for a in &huge {
        for b in &huge {
            for c in &huge {
                index += 1;
                if cli.mine(index) {
                    check(&r, &[*a, *b, *c], 1, index);
                }
            }
            index += 1;
            if cli.mine(index) {
                check(&r, &[*a, *b], 0, index);
            }
        }
    }
    if cli.thorough {
        // depth 2 over the full alphabet on a fresh and on a warmed-up thread; full x reduced inside the
        // thread's tear-down; depth 3 over the reduced alphabet on a warmed-up thread
        for a in &full {
            for b in &full {
                for phase in [0usize, 1] {
                    index += 1;
                    if cli.mine(index) {
                        check(&r, &[*a, *b], phase, index);
                    }
                }
            }
            for b in &reduced {
                for phase in [2usize, 3] {
                    index += 1;
                    if cli.mine(index) {
                        check(&r, &[*a, *b], phase, index);
                    }
                }
            }
        }
        let reduced1: Vec<Req> = reduced.iter().copied().filter(|q| q.align == 1).collect();
        for a in &reduced1 {
            for b in &reduced1 {
                for c in &reduced1 {
                    index += 1;
                    if cli.mine(index) {
                        check(&r, &[*a, *b, *c], 1, index);
                    }
                }
            }
        }
    }
    let tiny: Vec<Req> = reduced.iter().copied().filter(|q| q.size == 8 && q.align == 1 && (q.op != 2 || q.new_size == 24)).collect();
    let d3_phases: &[usize] = if cli.thorough { &[0, 1, 2, 3] } else { &[0, 2] };
    for a in &tiny {
        for b in &tiny {
            for c in &tiny {
                for &phase in d3_phases {
                    index += 1;
                    if cli.mine(index) {
                        check(&r, &[*a, *b, *c], phase, index);
                    }
                }
            }
        }
    }
    if cli.thorough {
        // depth 4 over the one-layout alphabet in every phase
        for a in &tiny {
            for b in &tiny {
                for c in &tiny {
                    for d in &tiny {
                        for phase in 0..4 {
                            index += 1;
                            if cli.mine(index) {
                                check(&r, &[*a, *b, *c, *d], phase, index);
                            }
                        }
                    }
                }
            }
        }
    }
    r.set_bounds(json!({
        "thorough_extra": if cli.thorough { "depth 2 over the full alphabet (fresh / warmed-up thread), full x reduced in tear-down, depth 3 over the reduced alphabet with align 1 (warmed-up), depth 4 over the one-layout alphabet in every phase" } else { "-" },
        "huge_requests": huge.len(), "huge_sequences": "all pairs and triples of requests of about isize::MAX bytes (build with overflow checks)",
        "depth1_requests": full.len(), "depth2_alphabet": reduced.len(), "depth3_alphabet": tiny.len(),
        "layouts_full": layouts(true).iter().map(|(s, a)| format!("{s}/{a}")).collect::<Vec<_>>(),
        "returns": ["null", "0x1000", "0x7fff00002000"], "phases": PHASES, "depth3_phases": d3_phases,
    }));
    r.emit();
}
