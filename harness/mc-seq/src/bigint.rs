//! Minimal unsigned 256-bit arithmetic for reference computations
//! (u64 * 10^12 fits in u128, but the references must not share the
//! implementation's assumptions).

#[derive(Clone, Copy, PartialEq, Eq, PartialOrd, Ord, Debug)]
pub struct U256 {
    pub hi: u128,
    pub lo: u128,
}

impl U256 {
    pub fn from_u128(v: u128) -> Self {
        U256 { hi: 0, lo: v }
    }

    /// Full 128x128 -> 256 multiplication.
    pub fn mul_u128(a: u128, b: u128) -> Self {
        let mask = u64::MAX as u128;
        let (a1, a0) = (a >> 64, a & mask);
        let (b1, b0) = (b >> 64, b & mask);
        let p00 = a0 * b0;
        let p01 = a0 * b1;
        let p10 = a1 * b0;
        let p11 = a1 * b1;
        let mid = (p00 >> 64) + (p01 & mask) + (p10 & mask);
        let lo = (p00 & mask) | (mid << 64);
        let hi = p11 + (p01 >> 64) + (p10 >> 64) + (mid >> 64);
        U256 { hi, lo }
    }

    fn bit(&self, i: u32) -> bool {
        if i >= 128 {
            (self.hi >> (i - 128)) & 1 == 1
        } else {
            (self.lo >> i) & 1 == 1
        }
    }

    /// Floor division by a non-zero u128 (schoolbook, bit by bit).
    /// Returns (quotient, remainder).
    pub fn div_rem_u128(&self, d: u128) -> (U256, u128) {
        assert!(d != 0);
        let mut q = U256 { hi: 0, lo: 0 };
        // remainder can need 129 bits transiently: keep (carry, rem)
        let mut rem: u128 = 0;
        for i in (0..256).rev() {
            let carry = rem >> 127 == 1;
            rem = (rem << 1) | self.bit(i) as u128;
            if carry || rem >= d {
                rem = rem.wrapping_sub(d);
                if i >= 128 {
                    q.hi |= 1 << (i - 128);
                } else {
                    q.lo |= 1 << i;
                }
            }
        }
        (q, rem)
    }
}
