//! Shared plumbing of the engine-S binaries: command line, result record,
//! parallel map. Every binary enumerates a bounded space exhaustively, runs the
//! real divan code on each case and compares with a reference model.

use serde_json::{json, Value};
use std::collections::BTreeSet;
use std::sync::atomic::{AtomicU64, Ordering};
use std::sync::Mutex;
use std::time::Instant;

pub mod bigint;

#[derive(Clone, Debug)]
pub struct Cli {
    pub thorough: bool,
    pub seed: u64,
    /// (index, total) partition of the case space handled by this process.
    pub part: (usize, usize),
    /// Replay exactly this case.
    pub case: Option<Value>,
    pub sub: Vec<String>,
}

impl Cli {
    pub fn parse() -> Cli {
        let mut cli = Cli { thorough: false, seed: 0, part: (0, 1), case: None, sub: Vec::new() };
        let mut args = std::env::args().skip(1);
        while let Some(a) = args.next() {
            match a.as_str() {
                "--tier" => cli.thorough = args.next().as_deref() == Some("thorough"),
                "--seed" => cli.seed = args.next().and_then(|s| s.parse().ok()).unwrap_or(0),
                "--part" => {
                    let s = args.next().expect("--part i/n");
                    let (i, n) = s.split_once('/').expect("--part i/n");
                    cli.part = (i.parse().unwrap(), n.parse().unwrap());
                }
                "--case" => {
                    let s = args.next().expect("--case <json>");
                    cli.case = Some(serde_json::from_str(&s).expect("case json"));
                }
                "--case-file" => {
                    let s = std::fs::read_to_string(args.next().expect("--case-file <path>")).expect("read case");
                    cli.case = Some(serde_json::from_str(&s).expect("case json"));
                }
                other => cli.sub.push(other.to_owned()),
            }
        }
        cli
    }

    pub fn mine(&self, index: u64) -> bool {
        (index % self.part.1 as u64) as usize == self.part.0
    }
}

#[derive(Clone, Debug)]
pub struct Violation {
    /// Stable signature: which specific input / call site / history fails.
    pub sig: Value,
    pub text: String,
    /// Self-contained case description that `--case` replays.
    pub case: Value,
}

/// Result record of one engine run; printed as one JSON line prefixed `RESULT `.
pub struct Report {
    pub name: String,
    start: Instant,
    pub states: AtomicU64,
    pub transitions: AtomicU64,
    pub traces: AtomicU64,
    pub evaluations: AtomicU64,
    pub excluded: AtomicU64,
    outcomes: Mutex<BTreeSet<String>>,
    samples: Mutex<Vec<Value>>,
    violations: Mutex<Vec<Violation>>,
    pub bounds: Mutex<Value>,
    pub exhaustive: std::sync::atomic::AtomicBool,
    pub max_violations: usize,
    seed: u64,
}

impl Report {
    pub fn new(name: &str, cli: &Cli) -> Self {
        Report {
            name: name.to_owned(),
            start: Instant::now(),
            states: AtomicU64::new(0),
            transitions: AtomicU64::new(0),
            traces: AtomicU64::new(0),
            evaluations: AtomicU64::new(0),
            excluded: AtomicU64::new(0),
            outcomes: Mutex::new(BTreeSet::new()),
            samples: Mutex::new(Vec::new()),
            violations: Mutex::new(Vec::new()),
            bounds: Mutex::new(json!({})),
            exhaustive: std::sync::atomic::AtomicBool::new(true),
            max_violations: 40,
            seed: cli.seed,
        }
    }

    pub fn add(&self, c: &AtomicU64, n: u64) {
        c.fetch_add(n, Ordering::Relaxed);
    }

    /// Records one explored case: `states` += 1, `transitions` += steps,
    /// `traces` += 1 (the real code was executed and compared).
    pub fn case(&self, steps: u64) {
        self.states.fetch_add(1, Ordering::Relaxed);
        self.transitions.fetch_add(steps.max(1), Ordering::Relaxed);
        self.traces.fetch_add(1, Ordering::Relaxed);
        self.evaluations.fetch_add(1, Ordering::Relaxed);
    }

    /// Distinct observed outcome classes (vacuity indicator). Bounded set.
    pub fn outcome(&self, key: impl Into<String>) {
        let mut o = self.outcomes.lock().unwrap();
        if o.len() < 100_000 {
            o.insert(key.into());
        }
    }

    /// Offers a case as a sample; a few are kept, chosen by seed.
    pub fn sample(&self, index: u64, make: impl FnOnce() -> Value) {
        let keep = {
            let h = index.wrapping_add(self.seed).wrapping_mul(0x9E37_79B9_7F4A_7C15) >> 40;
            index < 2 || h % 4099 == 0
        };
        if keep {
            let mut s = self.samples.lock().unwrap();
            if s.len() < 8 {
                s.push(make());
            }
        }
    }

    pub fn force_sample(&self, v: Value) {
        let mut s = self.samples.lock().unwrap();
        if s.len() < 12 {
            s.push(v);
        }
    }

    pub fn violation(&self, v: Violation) {
        let mut vs = self.violations.lock().unwrap();
        // Keep one witness per signature plus a bounded number overall.
        if vs.iter().any(|o| o.sig == v.sig) {
            return;
        }
        if vs.len() < self.max_violations {
            vs.push(v);
        }
    }

    pub fn violation_count(&self) -> usize {
        self.violations.lock().unwrap().len()
    }

    pub fn set_bounds(&self, v: Value) {
        *self.bounds.lock().unwrap() = v;
    }

    pub fn emit(&self) -> ! {
        let vs = self.violations.lock().unwrap();
        let out = json!({
            "name": self.name,
            "states": self.states.load(Ordering::Relaxed),
            "transitions": self.transitions.load(Ordering::Relaxed),
            "traces_validated_against_impl": self.traces.load(Ordering::Relaxed),
            "evaluations": self.evaluations.load(Ordering::Relaxed),
            "excluded": self.excluded.load(Ordering::Relaxed),
            "distinct_outcomes": self.outcomes.lock().unwrap().len(),
            "exhaustive": self.exhaustive.load(Ordering::Relaxed),
            "bounds": *self.bounds.lock().unwrap(),
            "samples": *self.samples.lock().unwrap(),
            "violations": vs.iter().map(|v| json!({"sig": v.sig, "text": v.text, "case": v.case})).collect::<Vec<_>>(),
            "wall_s": self.start.elapsed().as_secs_f64(),
        });
        println!("RESULT {}", out);
        std::process::exit(if vs.is_empty() { 0 } else { 1 });
    }
}

/// Runs `f(i)` for every i in 0..n on `threads` OS threads (work stealing by
/// atomic counter). Only for checks that do not use the global clock / log.
pub fn par_for(n: u64, f: impl Fn(u64) + Sync) {
    let threads = std::thread::available_parallelism().map(|n| n.get()).unwrap_or(4).min(16);
    let next = AtomicU64::new(0);
    let chunk = (n / (threads as u64 * 64)).max(1);
    std::thread::scope(|s| {
        for _ in 0..threads {
            s.spawn(|| loop {
                let start = next.fetch_add(chunk, Ordering::Relaxed);
                if start >= n {
                    break;
                }
                for i in start..(start + chunk).min(n) {
                    f(i);
                }
            });
        }
    });
}

pub fn panic_text(payload: Box<dyn std::any::Any + Send>) -> String {
    if let Some(s) = payload.downcast_ref::<&str>() {
        (*s).to_owned()
    } else if let Some(s) = payload.downcast_ref::<String>() {
        s.clone()
    } else {
        "<non-string panic payload>".to_owned()
    }
}

/// Silences the default panic hook (the explorers provoke and catch panics).
pub fn quiet_panics() {
    std::panic::set_hook(Box::new(|_| {}));
}
