//! Shared driver of the real sample loop (`Bencher::bench*`), used by engine S
//! (std backend, T = 1) and engine L (loom backend, T > 1).
//!
//! A `LoopCase` fixes entry point, input/output shapes, options, cost script,
//! allocation scripts and an optional panic point. `run_case` executes the real
//! code on it under the virtual clock and returns the global event log plus the
//! recorded data; `oracle::*` are trace checkers over that outcome.

#![allow(dead_code)]

use divan::counter::{BytesCount, ItemsCount};
use divan::verif::{self, RunCfg, RunReport, TallyMirror};
use divan::{AllocProfiler, Bencher};
use divan_verif_rt::clock;
use divan_verif_rt::log::{self, Event, Kind};
use serde::{Deserialize, Serialize};
use std::alloc::{GlobalAlloc, Layout};
use std::sync::atomic::{AtomicU64, Ordering::SeqCst};
use std::sync::{Arc, Mutex, RwLock};
use std::time::Duration;

pub const ENTRY_NAMES: [&str; 6] =
    ["bench", "bench_local", "bench_values", "bench_local_values", "bench_refs", "bench_local_refs"];
pub const SHAPE_NAMES: [&str; 4] = ["unit", "zst_drop", "sized", "sized_drop"];
pub const SITE_NAMES: [&str; 5] = ["generator", "input_counter", "benched", "drop_output", "drop_input"];

pub const SITE_GEN: usize = 0;
pub const SITE_COUNT: usize = 1;
pub const SITE_CALL: usize = 2;
pub const SITE_DROP_OUT: usize = 3;
pub const SITE_DROP_IN: usize = 4;

pub const INJECTED_PANIC: &str = "injected: verif panic point";

#[derive(Serialize, Deserialize, Clone, Debug, PartialEq, Eq, Hash)]
pub struct PanicPoint {
    pub site: usize,
    pub thread: u32,
    /// The n-th (0-based) execution of that site on that thread panics.
    pub nth: u32,
}

#[derive(Serialize, Deserialize, Clone, Debug, PartialEq, Eq, Hash)]
pub struct LoopCase {
    /// 0 bench, 1 bench_local, 2 bench_values, 3 bench_local_values, 4 bench_refs, 5 bench_local_refs
    pub entry: usize,
    /// 0 `()`, 1 ZST with Drop, 2 sized without Drop, 3 sized with Drop
    pub ishape: usize,
    pub oshape: usize,
    pub test: bool,
    pub threads: usize,
    pub sample_count: Option<u32>,
    pub sample_size: Option<u32>,
    /// Nanoseconds; `u64::MAX` stands for `Duration::MAX`.
    pub min_time_ns: Option<u64>,
    pub max_time_ns: Option<u64>,
    pub skip_ext: Option<bool>,
    /// Per-input counters registered with `input_counter`: bit 0 Bytes, bit 1 Items.
    pub input_counters: u8,
    /// Inherited (options-level) counters by kind index Bytes, Chars, Cycles, Items.
    pub inherited: [Option<u64>; 4],
    /// `Bencher::counter` calls (kind index 0 Bytes / 3 Items, value), applied
    /// before (`false`) or after (`true`) the `input_counter` calls.
    pub bencher_counters: Vec<(usize, u64)>,
    pub counter_after_input: bool,
    pub panic: Option<PanicPoint>,
    /// Allocation script index per site.
    pub alloc: [usize; 5],
    /// Allocation scripts only run while the thread's round index is below this.
    #[serde(default)]
    pub alloc_until_round: Option<u64>,
    /// Allocation scripts only run once the thread's round index has reached this (quiet first rounds).
    #[serde(default)]
    pub alloc_from_round: Option<u64>,
    /// Bit i set = thread i runs the allocation scripts (None = every thread): a thread that performs no
    /// allocator operation at all next to one that does.
    #[serde(default)]
    pub alloc_threads: Option<u32>,
    /// Do not force the timer precision: the loop asks `Timer::precision()` (measured under the virtual
    /// clock and cached per process and timer kind).
    #[serde(default)]
    pub unforced_precision: bool,
    /// Clock ticks consumed per execution of each site, indexed by the thread's
    /// round (last entry repeats).
    pub cost: [Vec<u64>; 5],
    /// Extra ticks per benchmarked call on thread t: t * skew.
    pub thread_skew: u64,
    pub read_cost: u64,
    pub freq: u64,
    pub precision_ps: u64,
    pub overhead_ps: [u64; 4],
    /// Clock-read budget; exceeding it marks the case "excluded" (not a verdict).
    pub horizon: u64,
}

impl LoopCase {
    pub fn basic(entry: usize, ishape: usize, oshape: usize) -> Self {
        LoopCase {
            entry,
            ishape,
            oshape,
            test: false,
            threads: 1,
            sample_count: Some(1),
            sample_size: Some(1),
            min_time_ns: None,
            max_time_ns: None,
            skip_ext: None,
            input_counters: 0,
            inherited: [None; 4],
            bencher_counters: Vec::new(),
            counter_after_input: false,
            panic: None,
            alloc: [0; 5],
            alloc_until_round: None,
            alloc_from_round: None,
            alloc_threads: None,
            unforced_precision: false,
            cost: [vec![0], vec![0], vec![1000], vec![0], vec![0]],
            thread_skew: 0,
            read_cost: 0,
            freq: 1_000_000_000_000,
            precision_ps: 1000,
            overhead_ps: [0; 4],
            horizon: 100_000,
        }
    }

    pub fn has_inputs(&self) -> bool {
        self.entry >= 2
    }

    pub fn is_local(&self) -> bool {
        self.entry % 2 == 1
    }

    pub fn by_ref(&self) -> bool {
        self.entry >= 4
    }

    pub fn effective_threads(&self) -> usize {
        if self.is_local() {
            1
        } else {
            self.threads
        }
    }

    pub fn input_is_zst(&self) -> bool {
        !self.has_inputs() || self.ishape <= 1
    }

    pub fn input_drops(&self) -> bool {
        self.has_inputs() && (self.ishape == 1 || self.ishape == 3)
    }

    pub fn output_is_zst(&self) -> bool {
        self.oshape <= 1
    }

    pub fn output_drops(&self) -> bool {
        self.oshape == 1 || self.oshape == 3
    }

    pub fn describe(&self) -> String {
        format!(
            "{}<{}->{}> T={} n={:?} s={:?} {}",
            ENTRY_NAMES[self.entry],
            if self.has_inputs() { SHAPE_NAMES[self.ishape] } else { "-" },
            SHAPE_NAMES[self.oshape],
            self.threads,
            self.sample_count,
            self.sample_size,
            if self.test { "test" } else { "bench" }
        )
    }
}

fn dur(ns: Option<u64>) -> Option<Duration> {
    ns.map(|n| if n == u64::MAX { Duration::MAX } else { Duration::from_nanos(n) })
}

// ---------------------------------------------------------------------------
// Allocation scripts executed through the real AllocProfiler over a mock
// ---------------------------------------------------------------------------

pub struct Mock;

thread_local! {
    /// While set, the wrapped allocator refuses every request on this thread (returns null).
    pub static MOCK_REFUSES: std::cell::Cell<bool> = const { std::cell::Cell::new(false) };
}

fn mock_ptr(addr: usize) -> *mut u8 {
    if MOCK_REFUSES.with(|c| c.get()) {
        std::ptr::null_mut()
    } else {
        addr as *mut u8
    }
}

unsafe impl GlobalAlloc for Mock {
    unsafe fn alloc(&self, _: Layout) -> *mut u8 {
        mock_ptr(0x1000)
    }
    unsafe fn dealloc(&self, _: *mut u8, _: Layout) {}
    unsafe fn alloc_zeroed(&self, _: Layout) -> *mut u8 {
        mock_ptr(0x1000)
    }
    unsafe fn realloc(&self, _: *mut u8, _: Layout, _: usize) -> *mut u8 {
        mock_ptr(0x2000)
    }
}

/// Applies one operation that the wrapped allocator refuses.
pub fn apply_op_refused(op: Op) {
    MOCK_REFUSES.with(|c| c.set(true));
    apply_op(op);
    MOCK_REFUSES.with(|c| c.set(false));
}

pub static PROFILER: AllocProfiler<Mock> = AllocProfiler::new(Mock);

#[derive(Clone, Copy, Debug, PartialEq, Eq)]
pub enum Op {
    Alloc(u64),
    AllocZeroed(u64),
    Dealloc(u64),
    Realloc(u64, u64),
}

pub const ALLOC_SCRIPTS: &[&[Op]] = &[
    &[],
    &[Op::Alloc(8)],
    &[Op::Alloc(8), Op::Dealloc(8)],
    &[Op::Realloc(8, 24)],
    &[Op::AllocZeroed(16), Op::Realloc(16, 4)],
    &[Op::Dealloc(32), Op::Alloc(3), Op::Alloc(5)],
    // only frees (a block obtained before the section): no `alloc` at all in the sample
    &[Op::Dealloc(16)],
];

/// Applies one allocator operation through the real profiler on this thread.
pub fn apply_op(op: Op) {
    unsafe {
        let fake = 0x1000 as *mut u8;
        match op {
            Op::Alloc(z) => {
                PROFILER.alloc(Layout::from_size_align_unchecked(z as usize, 1));
            }
            Op::AllocZeroed(z) => {
                PROFILER.alloc_zeroed(Layout::from_size_align_unchecked(z as usize, 1));
            }
            Op::Dealloc(z) => PROFILER.dealloc(fake, Layout::from_size_align_unchecked(z as usize, 1)),
            Op::Realloc(a, b) => {
                PROFILER.realloc(fake, Layout::from_size_align_unchecked(a as usize, 1), b as usize);
            }
        }
    }
}

fn encode_op(op: Op, site: usize) -> (u64, u64) {
    let (code, a, b) = match op {
        Op::Alloc(z) => (0u64, 0, z),
        Op::AllocZeroed(z) => (1, 0, z),
        Op::Dealloc(z) => (2, z, 0),
        Op::Realloc(a, b) => (3, a, b),
    };
    (code | ((site as u64) << 8), (a << 32) | b)
}

pub fn decode_op(e: &Event) -> (Op, usize) {
    let code = e.a & 0xff;
    let site = (e.a >> 8) as usize;
    let (a, b) = (e.b >> 32, e.b & 0xffff_ffff);
    let op = match code {
        0 => Op::Alloc(b),
        1 => Op::AllocZeroed(b),
        2 => Op::Dealloc(a),
        _ => Op::Realloc(a, b),
    };
    (op, site)
}

/// Reference tally (the C10 model): exact counts / byte sums, peak tracking.
pub fn reference_tally(ops: impl IntoIterator<Item = Op>) -> TallyMirror {
    let mut t = TallyMirror::default();
    for op in ops {
        match op {
            Op::Alloc(z) | Op::AllocZeroed(z) => {
                t.tallies[2].0 += 1;
                t.tallies[2].1 += z;
                t.current_count += 1;
                t.current_size += z as i64;
                t.max_count = t.max_count.max(t.current_count);
                t.max_size = t.max_size.max(t.current_size);
            }
            Op::Dealloc(z) => {
                t.tallies[3].0 += 1;
                t.tallies[3].1 += z;
                t.current_count -= 1;
                t.current_size -= z as i64;
            }
            Op::Realloc(a, b) => {
                let idx = if b < a { 1 } else { 0 };
                t.tallies[idx].0 += 1;
                t.tallies[idx].1 += a.abs_diff(b);
                t.current_size += b as i64 - a as i64;
                t.max_size = t.max_size.max(t.current_size);
            }
        }
    }
    t
}

// ---------------------------------------------------------------------------
// Sites: what the user closures and destructors do
// ---------------------------------------------------------------------------

pub struct Sites {
    case: LoopCase,
    next_id: AtomicU64,
    calls: AtomicU64,
    /// Executions per (thread, site).
    occurrences: Mutex<Vec<[u32; 5]>>,
}

static SITES: RwLock<Option<Arc<Sites>>> = RwLock::new(None);

fn sites() -> Arc<Sites> {
    SITES.read().unwrap_or_else(|e| e.into_inner()).clone().expect("no active case")
}

impl Sites {
    fn visit(&self, site: usize) {
        let thread = log::thread_index();
        note_pool_index(thread);
        let nth = {
            let mut occ = self.occurrences.lock().unwrap_or_else(|e| e.into_inner());
            if occ.len() <= thread as usize {
                occ.resize(thread as usize + 1, [0; 5]);
            }
            let n = occ[thread as usize][site];
            occ[thread as usize][site] += 1;
            n
        };
        // Allocation script, thread-distinct sizes.
        let scripts_on = self.case.alloc_until_round.map_or(true, |r| clock::round_of_current_thread() < r)
            && self.case.alloc_from_round.map_or(true, |r| clock::round_of_current_thread() >= r)
            && self.case.alloc_threads.map_or(true, |mask| mask >> thread & 1 == 1);
        for &op in ALLOC_SCRIPTS[if scripts_on { self.case.alloc[site] } else { 0 }] {
            let bump = thread as u64 * 4096;
            let op = match op {
                Op::Alloc(z) => Op::Alloc(z + bump),
                Op::AllocZeroed(z) => Op::AllocZeroed(z + bump),
                Op::Dealloc(z) => Op::Dealloc(z + bump),
                Op::Realloc(a, b) => Op::Realloc(a + bump, b + bump),
            };
            let (a, b) = encode_op(op, site);
            log::event(Kind::AllocOp, a, b);
            apply_op(op);
        }
        // Cost.
        let round = clock::round_of_current_thread() as usize;
        let table = &self.case.cost[site];
        let mut cost = table[round.min(table.len() - 1)];
        if site == SITE_CALL {
            cost += thread as u64 * self.case.thread_skew;
        }
        if cost > 0 {
            clock::advance(cost);
        }
        // Panic point.
        if let Some(p) = &self.case.panic {
            if p.site == site && p.thread == thread && p.nth == nth {
                log::event(Kind::Mark, site as u64, nth as u64);
                panic!("{}", INJECTED_PANIC);
            }
        }
    }

    fn gen(&self, zst: bool) -> u64 {
        let id = if zst { 0 } else { self.next_id.fetch_add(1, SeqCst) };
        log::event(Kind::Gen, id, 0);
        self.visit(SITE_GEN);
        id
    }

    fn count(&self, id: u64, kind: u64) -> u64 {
        log::event(Kind::Count, id, kind);
        self.visit(SITE_COUNT);
        count_value(id, kind)
    }

    fn call(&self, id: u64) {
        // Budget on benchmarked calls: a run that would never end (e.g. tuning a
        // zero-cost function under a frozen clock) is cut and reported as
        // excluded, never as a verdict.
        if self.calls.fetch_add(1, SeqCst) > 64 * self.case.horizon {
            clock::raise_horizon();
        }
        log::event(Kind::Call, id, 0);
        self.visit(SITE_CALL);
    }

    fn drop_out(&self, id: u64) {
        log::event(Kind::DropOut, id, 0);
        self.visit(SITE_DROP_OUT);
    }

    fn drop_in(&self, id: u64) {
        log::event(Kind::DropIn, id, 0);
        self.visit(SITE_DROP_IN);
    }
}

/// The value an input counter of `kind` reports for input `id`.
/// Whether the case registers a per-input counter of `kind` (0 bytes, 1 chars, 2 cycles, 3 items):
/// bits 0..3 of `input_counters` stand for bytes, items, chars, cycles.
pub fn input_counter_registered(mask: u8, kind: u64) -> bool {
    let bit = match kind {
        0 => 1,
        3 => 2,
        1 => 4,
        _ => 8,
    };
    mask & bit != 0
}

pub fn count_value(id: u64, kind: u64) -> u64 {
    (id % 997) * 3 + kind + 1
}

// ---------------------------------------------------------------------------
// Shapes
// ---------------------------------------------------------------------------

pub trait InShape: Sized + 'static {
    fn make(id: u64) -> Self;
    fn id(&self) -> u64;
    const ZST: bool;
}

pub trait OutShape: Sized + 'static {
    fn make(id: u64) -> Self;
}

impl InShape for () {
    fn make(_: u64) {}
    fn id(&self) -> u64 {
        0
    }
    const ZST: bool = true;
}

pub struct InZd;
impl InShape for InZd {
    fn make(_: u64) -> Self {
        InZd
    }
    fn id(&self) -> u64 {
        0
    }
    const ZST: bool = true;
}
impl Drop for InZd {
    fn drop(&mut self) {
        sites().drop_in(0);
    }
}

pub struct InS(pub u64);
impl InShape for InS {
    fn make(id: u64) -> Self {
        InS(id)
    }
    fn id(&self) -> u64 {
        self.0
    }
    const ZST: bool = false;
}

pub struct InSd(pub u64);
impl InShape for InSd {
    fn make(id: u64) -> Self {
        InSd(id)
    }
    fn id(&self) -> u64 {
        self.0
    }
    const ZST: bool = false;
}
impl Drop for InSd {
    fn drop(&mut self) {
        sites().drop_in(self.0);
    }
}

impl OutShape for () {
    fn make(_: u64) {}
}

pub struct OutZd;
impl OutShape for OutZd {
    fn make(_: u64) -> Self {
        OutZd
    }
}
impl Drop for OutZd {
    fn drop(&mut self) {
        sites().drop_out(0);
    }
}

pub struct OutS(pub u64);
impl OutShape for OutS {
    fn make(id: u64) -> Self {
        OutS(id)
    }
}

pub struct OutSd(pub u64);
impl OutShape for OutSd {
    fn make(id: u64) -> Self {
        OutSd(id)
    }
}
impl Drop for OutSd {
    fn drop(&mut self) {
        sites().drop_out(self.0);
    }
}

// ---------------------------------------------------------------------------
// Running a case
// ---------------------------------------------------------------------------

pub struct LoopOutcome {
    /// Pool index (0 = the caller, i = the worker named `divan-i`) of each trace thread, when the OS
    /// thread names tell (real threads only; empty when they do not identify the threads one to one).
    pub pool_index: Vec<usize>,
    /// The run was cut because its clock-read / call budget was exhausted.
    pub horizon: bool,
    pub events: Vec<Event>,
    pub report: Option<RunReport>,
    pub panic: Option<String>,
    pub end_time: u64,
    pub reads: u64,
}

fn apply_counters<'a, 'b, I: InShape, G>(
    case: &LoopCase,
    mut b: Bencher<'a, 'b, divan::verif::BencherCfg<G>>,
) -> Bencher<'a, 'b, divan::verif::BencherCfg<G>>
where
    G: FnMut() -> I,
{
    let consts = |mut b: Bencher<'a, 'b, divan::verif::BencherCfg<G>>| {
        for &(kind, value) in &case.bencher_counters {
            b = match kind {
                0 => b.counter(BytesCount::new(value)),
                1 => b.counter(divan::counter::CharsCount::new(value)),
                2 => b.counter(divan::counter::CyclesCount::new(value)),
                _ => b.counter(ItemsCount::new(value)),
            };
        }
        b
    };
    if !case.counter_after_input {
        b = consts(b);
    }
    if case.input_counters & 1 != 0 {
        b = b.input_counter(|i: &I| BytesCount::new(sites().count(i.id(), 0)));
    }
    if case.input_counters & 2 != 0 {
        b = b.input_counter(|i: &I| ItemsCount::new(sites().count(i.id(), 3)));
    }
    if case.input_counters & 4 != 0 {
        b = b.input_counter(|i: &I| divan::counter::CharsCount::new(sites().count(i.id(), 1)));
    }
    if case.input_counters & 8 != 0 {
        b = b.input_counter(|i: &I| divan::counter::CyclesCount::new(sites().count(i.id(), 2)));
    }
    if case.counter_after_input {
        b = consts(b);
    }
    b
}

fn drive<I: InShape, O: OutShape>(case: &LoopCase, bencher: Bencher) {
    let gen = || I::make(sites().gen(I::ZST));
    match case.entry {
        0 => {
            let mut b = bencher;
            for &(kind, value) in &case.bencher_counters {
                b = match kind {
                    0 => b.counter(BytesCount::new(value)),
                    1 => b.counter(divan::counter::CharsCount::new(value)),
                    2 => b.counter(divan::counter::CyclesCount::new(value)),
                    _ => b.counter(ItemsCount::new(value)),
                };
            }
            b.bench(|| {
                sites().call(0);
                O::make(0)
            })
        }
        1 => {
            let mut b = bencher;
            for &(kind, value) in &case.bencher_counters {
                b = match kind {
                    0 => b.counter(BytesCount::new(value)),
                    1 => b.counter(divan::counter::CharsCount::new(value)),
                    2 => b.counter(divan::counter::CyclesCount::new(value)),
                    _ => b.counter(ItemsCount::new(value)),
                };
            }
            b.bench_local(|| {
                sites().call(0);
                O::make(0)
            })
        }
        2 => apply_counters::<I, _>(case, bencher.with_inputs(gen)).bench_values(|i: I| {
            // The value is consumed ("moved elsewhere") before anything can panic,
            // so a destructor run observed for it can only come from the loop.
            let id = i.id();
            std::mem::forget(i);
            sites().call(id);
            O::make(id)
        }),
        3 => apply_counters::<I, _>(case, bencher.with_inputs(gen)).bench_local_values(|i: I| {
            // The value is consumed ("moved elsewhere") before anything can panic,
            // so a destructor run observed for it can only come from the loop.
            let id = i.id();
            std::mem::forget(i);
            sites().call(id);
            O::make(id)
        }),
        4 => apply_counters::<I, _>(case, bencher.with_inputs(gen)).bench_refs(|i: &mut I| {
            let id = i.id();
            sites().call(id);
            O::make(id)
        }),
        5 => apply_counters::<I, _>(case, bencher.with_inputs(gen)).bench_local_refs(|i: &mut I| {
            let id = i.id();
            sites().call(id);
            O::make(id)
        }),
        _ => unreachable!(),
    }
}

fn dispatch(case: &LoopCase, bencher: Bencher) {
    macro_rules! out {
        ($i:ty) => {
            match case.oshape {
                0 => drive::<$i, ()>(case, bencher),
                1 => drive::<$i, OutZd>(case, bencher),
                2 => drive::<$i, OutS>(case, bencher),
                _ => drive::<$i, OutSd>(case, bencher),
            }
        };
    }
    if !case.has_inputs() {
        out!(())
    } else {
        match case.ishape {
            0 => out!(()),
            1 => out!(InZd),
            2 => out!(InS),
            _ => out!(InSd),
        }
    }
}

pub fn run_cfg(case: &LoopCase) -> RunCfg {
    RunCfg {
        test: case.test,
        threads: case.threads,
        sample_count: case.sample_count,
        sample_size: case.sample_size,
        min_time: dur(case.min_time_ns),
        max_time: dur(case.max_time_ns),
        skip_ext_time: case.skip_ext,
        counters: case.inherited,
        frequency: case.freq,
    }
}

/// Executes the real sample loop on `case`. Must be called on the thread that is
/// to be thread 0; under loom, inside the model closure.
pub fn run_case(case: &LoopCase) -> LoopOutcome {
    *SITES.write().unwrap_or_else(|e| e.into_inner()) = Some(Arc::new(Sites {
        case: case.clone(),
        next_id: AtomicU64::new(1),
        calls: AtomicU64::new(0),
        occurrences: Mutex::new(Vec::new()),
    }));
    log::reset();
    POOL_INDEX.lock().unwrap_or_else(|e| e.into_inner()).clear();
    clock::enable(case.freq, 1_000_000, case.read_cost, case.horizon);
    clock::force_precision(if case.unforced_precision { None } else { Some(case.precision_ps as u128) });
    clock::force_overheads(Some(case.overhead_ps.map(|p| p as u128)));
    verif::tally_clear();

    let cfg = run_cfg(case);
    let result = std::panic::catch_unwind(std::panic::AssertUnwindSafe(|| {
        verif::run_bencher(&cfg, &|bencher| dispatch(case, bencher))
    }));

    let end_time = clock::now();
    let reads = clock::reads();
    let horizon = clock::horizon_hit();
    log::stop();
    clock::disable();
    let events = log::take();
    let (report, panic) = match result {
        Ok(r) => (Some(r), None),
        Err(p) => (
            None,
            Some(if let Some(s) = p.downcast_ref::<&str>() {
                (*s).to_owned()
            } else if let Some(s) = p.downcast_ref::<String>() {
                s.clone()
            } else {
                "<non-string panic>".to_owned()
            }),
        ),
    };
    let mut pool_index = std::mem::take(&mut *POOL_INDEX.lock().unwrap_or_else(|e| e.into_inner()));
    let mut sorted = pool_index.clone();
    sorted.sort_unstable();
    sorted.dedup();
    if sorted.len() != pool_index.len() || pool_index.contains(&usize::MAX) {
        pool_index.clear(); // not one to one (e.g. coroutine threads under loom): no claim
    }
    LoopOutcome { pool_index, horizon, events, report, panic, end_time, reads }
}

/// trace thread index -> pool index, filled by `Sites::visit`.
static POOL_INDEX: Mutex<Vec<usize>> = Mutex::new(Vec::new());

fn note_pool_index(thread: u32) {
    let mut map = POOL_INDEX.lock().unwrap_or_else(|e| e.into_inner());
    if map.len() <= thread as usize {
        map.resize(thread as usize + 1, usize::MAX);
    }
    if map[thread as usize] == usize::MAX {
        let current = std::thread::current();
        map[thread as usize] = match current.name().and_then(|n| n.strip_prefix("divan-")).and_then(|i| i.parse().ok()) {
            Some(i) => i,
            None => 0,
        };
    }
}

// ---------------------------------------------------------------------------
// Trace parsing
// ---------------------------------------------------------------------------

#[derive(Clone, Debug, Default)]
pub struct Section {
    /// Global indices.
    pub pre: Vec<(usize, Event)>,
    pub start: (usize, u64),
    pub timed: Vec<(usize, Event)>,
    pub end: (usize, u64),
    pub post: Vec<(usize, Event)>,
}

impl Section {
    pub fn calls(&self) -> Vec<u64> {
        self.timed.iter().filter(|(_, e)| e.kind == Kind::Call).map(|(_, e)| e.a).collect()
    }
    pub fn gens(&self) -> Vec<u64> {
        self.pre.iter().filter(|(_, e)| e.kind == Kind::Gen).map(|(_, e)| e.a).collect()
    }
    pub fn timed_ops(&self) -> Vec<Op> {
        self.timed.iter().filter(|(_, e)| e.kind == Kind::AllocOp).map(|(_, e)| decode_op(e).0).collect()
    }
}

#[derive(Clone, Debug, Default)]
pub struct ThreadTrace {
    pub thread: u32,
    /// Clock reads that do not open a timed section (e.g. the initial start).
    pub aux_reads: Vec<(usize, u64)>,
    pub sections: Vec<Section>,
    /// Events after the last complete section (a run cut short by a panic).
    pub tail: Vec<(usize, Event)>,
    pub open_start: Option<(usize, u64)>,
}

/// Splits one thread's events into timed sections: a section is a Start read
/// followed, with no other clock read in between, by an End read.
pub fn parse_threads(events: &[Event]) -> Vec<ThreadTrace> {
    let nthreads = events.iter().map(|e| e.thread + 1).max().unwrap_or(1);
    let mut out = Vec::new();
    for t in 0..nthreads {
        let mine: Vec<(usize, Event)> =
            events.iter().copied().enumerate().filter(|(_, e)| e.thread == t).collect();
        let mut tr = ThreadTrace { thread: t, ..Default::default() };
        let mut pending: Vec<(usize, Event)> = Vec::new();
        let mut open: Option<((usize, u64), Vec<(usize, Event)>, Vec<(usize, Event)>)> = None;
        for (gi, e) in mine {
            match e.kind {
                // (an arrival at a barrier stays in the trace: inside a timed section it means the thread
                // waited for the others between its two timestamps; logged by the loom facade only)
                Kind::BarrierLeave | Kind::Spawn | Kind::Mark => {
                    continue;
                }
                Kind::TsStart => {
                    if let Some((start, pre, timed)) = open.take() {
                        // A Start read after a Start read: the earlier one was auxiliary.
                        tr.aux_reads.push(start);
                        pending = pre;
                        pending.extend(timed);
                    }
                    open = Some(((gi, e.a), std::mem::take(&mut pending), Vec::new()));
                }
                Kind::TsEnd => {
                    if let Some((start, pre, timed)) = open.take() {
                        // Events seen before the Start but after the previous End
                        // belong to the previous section's post part up to the first
                        // Gen/Count/TallyCleared.
                        let mut pre = pre;
                        if let Some(prev) = tr.sections.last_mut() {
                            let cut = pre
                                .iter()
                                .position(|(_, e)| matches!(e.kind, Kind::Gen | Kind::Count | Kind::TallyCleared))
                                .unwrap_or(pre.len());
                            let rest = pre.split_off(cut);
                            prev.post.extend(pre);
                            pre = rest;
                        }
                        tr.sections.push(Section { pre, start, timed, end: (gi, e.a), post: Vec::new() });
                    } else {
                        tr.aux_reads.push((gi, e.a));
                    }
                }
                _ => {
                    if let Some((_, _, timed)) = open.as_mut() {
                        timed.push((gi, e));
                    } else {
                        pending.push((gi, e));
                    }
                }
            }
        }
        if let Some((start, pre, timed)) = open.take() {
            tr.open_start = Some(start);
            tr.tail = pre;
            tr.tail.extend(timed);
        } else if let Some(prev) = tr.sections.last_mut() {
            // Trailing events after the last End are its post part.
            prev.post.extend(std::mem::take(&mut pending));
        } else {
            tr.tail = pending;
        }
        out.push(tr);
    }
    out
}
