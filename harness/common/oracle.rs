//! Trace-checking oracles over a `LoopOutcome`. Each returns a list of
//! `(property, signature-class, text)` findings; an empty list means the
//! explored execution satisfies the property clauses checked here.

#![allow(dead_code)]

use super::loopdrv::*;
use divan_verif_rt::log::{Event, Kind};
use std::collections::{BTreeMap, HashMap, HashSet};

#[derive(Clone, Debug)]
pub struct Finding {
    pub prop: &'static str,
    pub class: String,
    pub text: String,
}

fn finding(out: &mut Vec<Finding>, prop: &'static str, class: &str, text: String) {
    out.push(Finding { prop, class: class.to_owned(), text });
}

/// What the configuration promises when no time limit interferes.
pub struct Expect {
    /// The loop does not run at all.
    pub none: bool,
    pub threads: usize,
    /// Rounds (samples per thread).
    pub rounds: u64,
    pub sample_size: u64,
}

/// Only defined for explicit sample size (or test mode) and no min/max time.
pub fn expect_counts(case: &LoopCase) -> Option<Expect> {
    let threads = case.effective_threads();
    let n = case.sample_count.unwrap_or(100) as u64;
    let none = case.sample_count == Some(0) || case.sample_size == Some(0) || case.max_time_ns == Some(0);
    if none {
        return Some(Expect { none: true, threads, rounds: 0, sample_size: 0 });
    }
    if case.test {
        return Some(Expect { none: false, threads, rounds: 1, sample_size: 1 });
    }
    if case.min_time_ns.is_some() || case.max_time_ns.is_some() {
        return None;
    }
    let s = case.sample_size? as u64;
    let rounds = (n + threads as u64 - 1) / threads as u64;
    Some(Expect { none: false, threads, rounds, sample_size: s })
}

/// C01 + C02 + C03 (+ the C08 ordering clauses when more than one thread ran).
pub fn check_loop(case: &LoopCase, out: &LoopOutcome) -> Vec<Finding> {
    let mut f = Vec::new();
    let traces = parse_threads(&out.events);
    let threads = case.effective_threads();
    let panicking = case.panic.is_some() && out.events.iter().any(|e| e.kind == Kind::Mark);

    // ---- thread placement (C01 / C06-style clause of C03: thread 0 is the caller)
    let active: Vec<&ThreadTrace> = traces
        .iter()
        .filter(|t| !t.sections.is_empty() || !t.tail.is_empty() || t.open_start.is_some())
        .collect();
    if case.is_local() && active.iter().any(|t| t.thread != 0) {
        finding(&mut f, "C01", "local-off-caller", format!("{}: a _local entry point ran user code on thread(s) {:?}, not only on the caller", case.describe(), active.iter().map(|t| t.thread).collect::<Vec<_>>()));
    }

    // ---- per-id registry over the global order (C01)
    let mut owner: HashMap<u64, u32> = HashMap::new();
    let mut dropped_in: HashSet<u64> = HashSet::new();
    let mut dropped_out: HashSet<u64> = HashSet::new();
    let mut called: HashSet<u64> = HashSet::new();
    let mut generated: HashSet<u64> = HashSet::new();
    for e in &out.events {
        let id = e.a;
        let sized_in = !case.input_is_zst();
        match e.kind {
            Kind::Gen if sized_in => {
                if !generated.insert(id) {
                    finding(&mut f, "C01", "gen-twice", format!("{}: id {id} generated twice", case.describe()));
                }
                owner.insert(id, e.thread);
            }
            Kind::Count if sized_in => {
                if !generated.contains(&id) {
                    finding(&mut f, "C01", "count-unknown", format!("{}: input counter saw value {id} that the generator never produced (uninitialised slot?)", case.describe()));
                }
                if dropped_in.contains(&id) || called.contains(&id) {
                    finding(&mut f, "C01", "count-late", format!("{}: input {id} counted after it was consumed or dropped", case.describe()));
                }
                if owner.get(&id).map_or(false, |&t| t != e.thread) {
                    finding(&mut f, "C01", "cross-thread", format!("{}: input {id} generated on thread {} but counted on thread {}", case.describe(), owner[&id], e.thread));
                }
            }
            Kind::Call if sized_in => {
                if !generated.contains(&id) {
                    finding(&mut f, "C01", "call-unknown", format!("{}: benchmarked function received value {id} that the generator never produced (uninitialised slot?)", case.describe()));
                }
                if dropped_in.contains(&id) {
                    finding(&mut f, "C01", "use-after-drop", format!("{}: input {id} handed to the benchmarked function after it was dropped", case.describe()));
                }
                if !called.insert(id) {
                    finding(&mut f, "C01", "call-twice", format!("{}: input {id} passed to more than one call", case.describe()));
                }
                if owner.get(&id).map_or(false, |&t| t != e.thread) {
                    finding(&mut f, "C01", "cross-thread", format!("{}: input {id} generated on thread {} but consumed on thread {}", case.describe(), owner[&id], e.thread));
                }
            }
            Kind::DropIn if sized_in && case.ishape == 3 => {
                if !case.by_ref() {
                    finding(&mut f, "C01", "drop-owned", format!("{}: input {id} was moved into the benchmarked function yet the loop dropped it (double drop)", case.describe()));
                }
                if !dropped_in.insert(id) {
                    finding(&mut f, "C01", "drop-twice", format!("{}: input {id} dropped twice", case.describe()));
                }
                if case.oshape == 3 && called.contains(&id) && !dropped_out.contains(&id) && !panicking {
                    finding(&mut f, "C01", "drop-order", format!("{}: input {id} dropped before the output computed from it", case.describe()));
                }
                if owner.get(&id).map_or(false, |&t| t != e.thread) {
                    finding(&mut f, "C01", "cross-thread", format!("{}: input {id} generated on thread {} but dropped on thread {}", case.describe(), owner[&id], e.thread));
                }
            }
            Kind::DropOut if case.oshape == 3 => {
                // Outputs carry the id of their input (0 when the input is zero-sized).
                if sized_in {
                    if !dropped_out.insert(id) {
                        finding(&mut f, "C01", "drop-twice", format!("{}: output {id} dropped twice", case.describe()));
                    }
                    if !called.contains(&id) {
                        finding(&mut f, "C01", "drop-unknown", format!("{}: an output with id {id} was dropped that no call produced (uninitialised slot?)", case.describe()));
                    }
                }
            }
            _ => {}
        }
    }

    // ---- per-thread sample structure (C01 counts, C02 timed-section purity)
    let counters = (case.input_counters & 15).count_ones() as usize;
    // A constant counter given after the input counter of the same kind replaces it: whether the replaced
    // closure is still shown the inputs is not stated (0 or 1 times per input); every other registered
    // input counter sees every input exactly once.
    let overridden = |kind: u64| case.counter_after_input && case.has_inputs() && case.bencher_counters.iter().any(|c| c.0 as u64 == kind) && input_counter_registered(case.input_counters, kind);
    let counters_min = counters - [0u64, 1, 2, 3].iter().filter(|&&k| overridden(k)).count();
    for tr in &traces {
        for (k, sec) in tr.sections.iter().enumerate() {
            let calls = sec.calls();
            let s = calls.len();
            // C02: nothing but calls (and their own allocator operations) inside.
            for (_, e) in &sec.timed {
                let bad = match e.kind {
                    Kind::Call => false,
                    Kind::AllocOp => decode_op(e).1 != SITE_CALL,
                    _ => true,
                };
                if bad {
                    let what = match e.kind {
                        Kind::BarrierArrive => "a wait at the threads' barrier".to_owned(),
                        Kind::AllocOp => format!("allocator operation of the {}", SITE_NAMES[decode_op(e).1]),
                        k => format!("{k:?}"),
                    };
                    finding(&mut f, "C02", &format!("in-timed-{:?}", e.kind), format!("{}: thread {} sample {k}: {what} happened between the start and end timestamps", case.describe(), tr.thread));
                }
            }
            // Untimed parts must not contain calls.
            for (_, e) in sec.pre.iter().chain(sec.post.iter()) {
                if e.kind == Kind::Call {
                    finding(&mut f, "C02", "call-untimed", format!("{}: thread {} sample {k}: a benchmarked call happened outside the timed section", case.describe(), tr.thread));
                }
            }
            if panicking {
                continue;
            }
            if case.has_inputs() {
                let gens = sec.gens();
                if gens.len() != s {
                    finding(&mut f, "C01", "gen-count", format!("{}: thread {} sample {k}: {} inputs generated for {} calls", case.describe(), tr.thread, gens.len(), s));
                }
                if !case.input_is_zst() {
                    let mut g = gens.clone();
                    let mut c = calls.clone();
                    g.sort_unstable();
                    c.sort_unstable();
                    if g != c {
                        finding(&mut f, "C01", "gen-call-mismatch", format!("{}: thread {} sample {k}: generated ids {:?} but called with {:?}", case.describe(), tr.thread, gens, calls));
                    }
                }
                // every input shown once to every input counter, before the start
                let counts: Vec<(u64, u64)> = sec.pre.iter().filter(|(_, e)| e.kind == Kind::Count).map(|(_, e)| (e.a, e.b)).collect();
                if counts.len() > s * counters || counts.len() < s * counters_min {
                    finding(&mut f, "C01", "count-count", format!("{}: thread {} sample {k}: {} counter invocations for {} inputs x {} input counters", case.describe(), tr.thread, counts.len(), s, counters));
                } else if !case.input_is_zst() {
                    let mut seen: BTreeMap<(u64, u64), u32> = BTreeMap::new();
                    for c in &counts {
                        *seen.entry(*c).or_default() += 1;
                    }
                    for id in &gens {
                        for kind in [0u64, 1, 2, 3] {
                            let registered = input_counter_registered(case.input_counters, kind);
                            let n = seen.get(&(*id, kind)).copied().unwrap_or(0);
                            if n != registered as u32 && !(overridden(kind) && n == 0) {
                                finding(&mut f, "C01", "count-per-input", format!("{}: thread {} sample {k}: input {id} shown {n} times to counter kind {kind}", case.describe(), tr.thread));
                            }
                        }
                    }
                }
            }
            // drops after the end timestamp, exactly once
            let drops_out = sec.post.iter().filter(|(_, e)| e.kind == Kind::DropOut).count();
            let drops_in = sec.post.iter().filter(|(_, e)| e.kind == Kind::DropIn).count();
            let want_out = if case.output_drops() { s } else { 0 };
            let want_in = if case.input_drops() && case.by_ref() { s } else { 0 };
            if drops_out != want_out {
                finding(&mut f, "C01", "out-drop-count", format!("{}: thread {} sample {k}: {} outputs dropped after the timed section, {} produced", case.describe(), tr.thread, drops_out, want_out));
            }
            if drops_in != want_in {
                finding(&mut f, "C01", "in-drop-count", format!("{}: thread {} sample {k}: {} lent inputs dropped after the timed section, expected {}", case.describe(), tr.thread, drops_in, want_in));
            }
            // output before the input it was computed from (sized ids; for ZSTs by position)
            if want_out > 0 && want_in > 0 {
                let seq: Vec<&Event> = sec.post.iter().map(|(_, e)| e).filter(|e| matches!(e.kind, Kind::DropOut | Kind::DropIn)).collect();
                let mut balance: i64 = 0;
                for e in &seq {
                    match e.kind {
                        Kind::DropOut => balance += 1,
                        _ => {
                            balance -= 1;
                            if balance < 0 {
                                finding(&mut f, "C01", "drop-order", format!("{}: thread {} sample {k}: an input was dropped before its output", case.describe(), tr.thread));
                                break;
                            }
                        }
                    }
                }
            }
        }
        // C01 panic clause: nothing runs on the panicking thread after the panic.
        if let Some(p) = &case.panic {
            if p.thread == tr.thread && panicking {
                let mark = out.events.iter().position(|e| e.kind == Kind::Mark).unwrap();
                let later_user = out.events[mark + 1..]
                    .iter()
                    .filter(|e| e.thread == tr.thread && matches!(e.kind, Kind::Gen | Kind::Call | Kind::Count))
                    .count();
                if later_user > 0 {
                    finding(&mut f, "C01", "runs-after-panic", format!("{}: {} user closure invocations on thread {} after the panic there", case.describe(), later_user, tr.thread));
                }
            }
        }
    }

    // ---- C03: exact call counts
    if !panicking && out.panic.is_none() {
        if let Some(exp) = expect_counts(case) {
            let total_calls: usize = traces.iter().map(|t| t.sections.iter().map(|s| s.calls().len()).sum::<usize>()).sum();
            if exp.none {
                if total_calls != 0 || out.events.iter().any(|e| matches!(e.kind, Kind::Gen | Kind::Call)) {
                    finding(&mut f, "C03", "ran-with-zero", format!("{}: the benchmarked function or generator ran although n = 0, s = 0 or max_time = 0", case.describe()));
                }
            } else {
                let per_thread: Vec<(u32, usize, usize)> = traces.iter().map(|t| (t.thread, t.sections.len(), t.sections.iter().map(|s| s.calls().len()).sum())).filter(|x| x.1 > 0).collect();
                if per_thread.len() != exp.threads {
                    finding(&mut f, "C03", "thread-count", format!("{}: samples were taken on {} threads, {} configured", case.describe(), per_thread.len(), exp.threads));
                }
                for (t, rounds, calls) in &per_thread {
                    if *rounds as u64 != exp.rounds || *calls as u64 != exp.rounds * exp.sample_size {
                        finding(&mut f, "C03", "calls-per-thread", format!("{}: thread {t} took {rounds} samples / {calls} calls, expected ceil(n/T) = {} samples of {} calls", case.describe(), exp.rounds, exp.sample_size));
                    }
                }
                for tr in &traces {
                    for (k, sec) in tr.sections.iter().enumerate() {
                        if sec.calls().len() as u64 != exp.sample_size {
                            finding(&mut f, "C03", "sample-size", format!("{}: thread {} sample {k} made {} calls, sample size is {}", case.describe(), tr.thread, sec.calls().len(), exp.sample_size));
                        }
                    }
                }
            }
            if let Some(rep) = &out.report {
                let want_recorded = if exp.none || case.test { 0 } else { exp.rounds * exp.threads as u64 };
                if rep.durations.len() as u64 != want_recorded {
                    finding(&mut f, "C03", "recorded", format!("{}: {} samples recorded, expected T*ceil(n/T) = {want_recorded}", case.describe(), rep.durations.len()));
                }
                if case.test && rep.time_samples_capacity != 0 {
                    finding(&mut f, "C03", "test-stores", format!("{}: test mode reserved storage for {} samples", case.describe(), rep.time_samples_capacity));
                }
                match &rep.stats {
                    Ok(st) => {
                        if st.sample_count as usize != rep.durations.len() {
                            finding(&mut f, "C03", "stats-samples", format!("{}: statistics report {} samples, {} recorded", case.describe(), st.sample_count, rep.durations.len()));
                        }
                        let s = if exp.none { rep.sample_size as u64 } else { exp.sample_size };
                        if !case.test && st.iter_count != rep.durations.len() as u64 * s {
                            finding(&mut f, "C03", "stats-iters", format!("{}: statistics report {} iterations, expected {} samples x {}", case.describe(), st.iter_count, rep.durations.len(), s));
                        }
                    }
                    Err(_) => {} // a panic while computing statistics is a C05 matter
                }
            }
        }
    }

    // ---- C02: stored tally = the thread's own timed operations
    if let (Some(rep), false) = (&out.report, panicking) {
        if !case.test && !rep.durations.is_empty() {
            let recorded_rounds = rep.durations.len() / threads.max(1);
            // Rounds, newest last; recorded ones are the last `recorded_rounds`.
            let per_thread_sections: Vec<&Vec<Section>> = traces.iter().filter(|t| !t.sections.is_empty()).map(|t| &t.sections).collect();
            let total_rounds = per_thread_sections.iter().map(|s| s.len()).min().unwrap_or(0);
            if recorded_rounds <= total_rounds && per_thread_sections.len() == threads {
                for r in 0..recorded_rounds {
                    let round = total_rounds - recorded_rounds + r;
                    let mut want: Vec<Option<divan::verif::TallyMirror>> = per_thread_sections
                        .iter()
                        .map(|secs| {
                            let t = reference_tally(secs[round].timed_ops());
                            if t.tallies.iter().all(|x| *x == (0, 0)) { None } else { Some(t) }
                        })
                        .collect();
                    let got: Vec<Option<divan::verif::TallyMirror>> = rep.tallies[r * threads..(r + 1) * threads].to_vec();
                    // The caller's sample is stored first.
                    if got[0] != want[0] {
                        finding(&mut f, "C02", "tally-mismatch", format!("{}: recorded sample {} (caller, round {round}) stores tally {:?} but the thread performed {:?} between its timestamps", case.describe(), r * threads, got[0], want[0]));
                    }
                    // Results land in index order: with the threads identified by name, every sample of the
                    // round must carry exactly the tally of the thread at its position (C02 and C08).
                    if out.pool_index.len() >= threads {
                        for tr in traces.iter().filter(|t| !t.sections.is_empty()) {
                            let Some(&pi) = out.pool_index.get(tr.thread as usize) else { continue };
                            if pi >= threads || tr.sections.len() <= round {
                                continue;
                            }
                            let own = reference_tally(tr.sections[round].timed_ops());
                            let own = if own.tallies.iter().all(|x| *x == (0, 0)) { None } else { Some(own) };
                            if got[pi] != own {
                                for prop in ["C02", "C08"] {
                                    finding(&mut f, prop, "tally-wrong-thread", format!("{}: round {round}: the sample at position {pi} (thread `divan-{pi}`, 0 = caller) stores tally {:?} but that thread performed {:?} between its timestamps", case.describe(), got[pi], own));
                                }
                            }
                        }
                    }
                    let key = |t: &Option<divan::verif::TallyMirror>| format!("{t:?}");
                    let mut g: Vec<String> = got.iter().map(key).collect();
                    let mut w: Vec<String> = want.iter_mut().map(|t| key(t)).collect();
                    g.sort();
                    w.sort();
                    if g != w {
                        finding(&mut f, "C08", "foreign-tally", format!("{}: round {round}: stored tallies {:?} differ from the threads' own timed operations {:?}", case.describe(), g, w));
                    }
                }
            }
        }
    }

    // ---- C08: cross-thread ordering within each round
    if threads > 1 {
        let secs: Vec<&ThreadTrace> = traces.iter().filter(|t| !t.sections.is_empty()).collect();
        let rounds = secs.iter().map(|t| t.sections.len()).min().unwrap_or(0);
        for r in 0..rounds {
            for i in &secs {
                for j in &secs {
                    if i.thread == j.thread {
                        continue;
                    }
                    let si = &i.sections[r];
                    let sj = &j.sections[r];
                    // j's generation / counting / tally clear precede i's start
                    // (untimed work that j performs inside its own timed section is late all the more)
                    let untimed_in_timed = sj.timed.iter().filter(|(_, e)| matches!(e.kind, Kind::Gen | Kind::Count | Kind::TallyCleared));
                    if let Some((gi, e)) = sj.pre.iter().filter(|(_, e)| matches!(e.kind, Kind::Gen | Kind::Count | Kind::TallyCleared | Kind::AllocOp)).chain(untimed_in_timed).last() {
                        if *gi > si.start.0 {
                            finding(&mut f, "C08", &format!("start-before-{:?}", e.kind), format!("{}: round {r}: thread {} took its start timestamp before thread {} finished {:?}", case.describe(), i.thread, j.thread, e.kind));
                        }
                    }
                    // j's end precedes i's first drop
                    // (a destructor that runs inside i's own timed section counts as well: it overlaps j's)
                    if let Some((gi, e)) = si.timed.iter().chain(si.post.iter()).find(|(_, e)| matches!(e.kind, Kind::DropOut | Kind::DropIn)) {
                        if *gi < sj.end.0 {
                            finding(&mut f, "C08", "drop-before-end", format!("{}: round {r}: thread {} started dropping ({:?}) before thread {} took its end timestamp", case.describe(), i.thread, e.kind, j.thread));
                        }
                    }
                }
            }
        }
    }

    // ---- C08 / C01 panic clause: the run ends with a panic on the caller
    if panicking {
        match &out.panic {
            Some(msg) if msg.contains("panicked") || msg.contains(INJECTED_PANIC) => {}
            Some(msg) => finding(&mut f, "C08", "panic-text", format!("{}: run ended with unexpected panic {msg:?}", case.describe())),
            None => finding(&mut f, "C08", "panic-swallowed", format!("{}: a user closure panicked on thread {} but the run returned normally", case.describe(), case.panic.as_ref().unwrap().thread)),
        }
    } else if let Some(msg) = &out.panic {
        if !out.horizon {
            finding(&mut f, "C05", "unexpected-panic", format!("{}: run panicked: {msg}", case.describe()));
        }
    }

    f
}

// ===========================================================================
// C04 / C19: the loop as a state machine whose environment is the clock
// ===========================================================================

/// One round reconstructed from the log: per thread (start, end, calls).
#[derive(Clone, Debug)]
pub struct Round {
    pub sections: Vec<(u32, u64, u64, usize)>,
}

impl Round {
    pub fn latest_end(&self) -> u64 {
        self.sections.iter().map(|s| s.2).max().unwrap()
    }
    pub fn slowest_ticks(&self) -> u64 {
        self.sections.iter().map(|s| s.2 - s.1).max().unwrap()
    }
    pub fn size(&self) -> usize {
        self.sections[0].3
    }
}

pub fn rounds_of(events: &[Event]) -> (Option<u64>, Vec<Round>, Vec<ThreadTrace>) {
    let traces = parse_threads(events);
    let initial = traces.iter().find(|t| t.thread == 0).and_then(|t| t.aux_reads.first()).map(|r| r.1);
    let active: Vec<&ThreadTrace> = traces.iter().filter(|t| !t.sections.is_empty()).collect();
    let n = active.iter().map(|t| t.sections.len()).min().unwrap_or(0);
    let rounds = (0..n)
        .map(|k| Round { sections: active.iter().map(|t| (t.thread, t.sections[k].start.1, t.sections[k].end.1, t.sections[k].calls().len())).collect() })
        .collect();
    (initial, rounds, traces)
}

fn ns_to_ps(ns: Option<u64>, default: u128) -> u128 {
    match ns {
        None => default,
        Some(u64::MAX) => {
            let d = std::time::Duration::MAX;
            d.as_nanos() * 1000
        }
        Some(n) => n as u128 * 1000,
    }
}

/// Checks the number of rounds executed, the sizes of the rounds and what was
/// kept, against the documented rule evaluated on the logged clock readings.
pub fn check_time(case: &LoopCase, out: &LoopOutcome) -> Vec<Finding> {
    let mut f = Vec::new();
    if case.test || out.panic.is_some() {
        return f;
    }
    let (initial, rounds, _traces) = rounds_of(&out.events);
    let threads = case.effective_threads() as u64;
    let ppt = 1_000_000_000_000u128 / case.freq as u128; // picoseconds per tick (freq divides 10^12 in all cases)
    let min = ns_to_ps(case.min_time_ns, 0);
    let max = ns_to_ps(case.max_time_ns, u128::MAX);
    let skip = case.skip_ext.unwrap_or(false);
    let n = case.sample_count.unwrap_or(100) as u64;
    let p = case.precision_ps as u128;
    let tuned = case.sample_size.is_none();
    let prop: &'static str = if tuned { "C19" } else { "C04" };

    // nothing runs at all
    if max == 0 || case.sample_count == Some(0) || case.sample_size == Some(0) {
        if !rounds.is_empty() {
            finding(&mut f, "C04", "ran-with-zero-budget", format!("{}: {} rounds ran although max_time = 0 or no samples were requested", case.describe(), rounds.len()));
        }
        return f;
    }
    if rounds.is_empty() {
        finding(&mut f, prop, "no-rounds", format!("{}: the loop did not run a single round", case.describe()));
        return f;
    }
    if !skip && initial.is_none() {
        finding(&mut f, "C04", "no-initial-start", format!("{}: no clock reading before the first sample although external time counts", case.describe()));
        return f;
    }

    // replay the documented rule over the logged readings
    let mut elapsed_skip: u128 = 0;
    let mut threshold: Option<usize> = if tuned { None } else { Some(0) };
    let mut expected_size: u64 = case.sample_size.map_or(1, |s| s as u64);
    let last = rounds.len() - 1;
    for (k, round) in rounds.iter().enumerate() {
        // --- size of this round (C19)
        for s in &round.sections {
            if s.3 as u64 != expected_size {
                finding(&mut f, if tuned { "C19" } else { "C03" }, "round-size", format!("{}: round {k} ran {} iterations on thread {}, expected {expected_size} (tuning doubles from 1 until the slowest sample exceeds 100x the precision)", case.describe(), s.3, s.0));
                return f;
            }
        }
        let slowest_ps = round.slowest_ticks() as u128 * ppt;
        if tuned && threshold.is_none() {
            if slowest_ps / p > 100 {
                threshold = Some(k);
            } else {
                expected_size *= 2;
            }
        }
        // --- elapsed time after this round (C04)
        let elapsed = if skip {
            elapsed_skip += slowest_ps.max(1000);
            elapsed_skip
        } else {
            (round.latest_end().saturating_sub(initial.unwrap())) as u128 * ppt
        };
        let recorded = threshold.map_or(0, |h| (k - h + 1) as u64 * threads);
        let more_samples = threshold.is_none() || recorded < n;
        let stop = elapsed >= max || (!more_samples && elapsed >= min);
        if k < last && stop {
            let why = if elapsed >= max { "max_time was reached" } else { "enough samples were recorded and min_time had passed" };
            finding(&mut f, prop, if elapsed >= max { "ran-past-max" } else { "ran-past-min" },
                format!("{}: sampling continued after round {k} although {why} (elapsed {elapsed} ps, min {min}, max {max}, recorded {recorded}/{n}, skip_ext_time {skip}); {} rounds ran", case.describe(), rounds.len()));
            return f;
        }
        if k == last && !stop {
            finding(&mut f, prop, if more_samples { "stopped-before-count" } else { "stopped-before-min" },
                format!("{}: sampling stopped after round {k} although the rule says continue (elapsed {elapsed} ps, min {min}, max {max}, recorded {recorded}/{n}, skip_ext_time {skip})", case.describe()));
            return f;
        }
    }

    // --- what was kept (C19 / C03)
    if let Some(rep) = &out.report {
        let kept_rounds = match threshold {
            Some(h) => rounds.len() - h,
            None => 1, // tuning was cut short by max_time: the newest round is all there is
        };
        let want = kept_rounds as u64 * threads;
        if rep.durations.len() as u64 != want {
            finding(&mut f, if tuned { "C19" } else { "C03" }, "kept-samples", format!("{}: {} samples are reported; {} rounds ran, the threshold round is {:?}, so {want} samples of the final size must remain", case.describe(), rep.durations.len(), rounds.len(), threshold));
        }
        if rep.sample_size as u64 != rounds[last].size() as u64 {
            finding(&mut f, prop, "reported-size", format!("{}: reported sample size {} but the final rounds ran {} iterations", case.describe(), rep.sample_size, rounds[last].size()));
        }
        for kind in 0..4 {
            if rep.uses_input_counts[kind] && rep.counts[kind].len() != rep.durations.len() {
                finding(&mut f, "C19", "stale-counts", format!("{}: {} per-sample counter values are kept for {} reported samples (data of discarded tuning rounds must go)", case.describe(), rep.counts[kind].len(), rep.durations.len()));
            }
        }
        // allocation data of discarded rounds must be gone: every kept sample
        // stores the tally of its own timed section and nothing else (T = 1)
        if threads == 1 && rep.durations.len() as u64 == want {
            let secs: Vec<&Section> = _traces.iter().flat_map(|t| t.sections.iter()).collect();
            let kept = &secs[secs.len() - rep.durations.len()..];
            for (i, sec) in kept.iter().enumerate() {
                let own = reference_tally(sec.timed_ops());
                let own = if own.tallies.iter().all(|x| *x == (0, 0)) { None } else { Some(own) };
                if rep.tallies[i] != own {
                    finding(&mut f, "C19", "stale-tallies", format!("{}: kept sample {i} stores tally {:?}, its own timed section performed {:?} (allocation data of discarded tuning rounds must go)", case.describe(), rep.tallies[i], own));
                    break;
                }
            }
        }
        if let Ok(st) = &rep.stats {
            if st.sample_count as usize != rep.durations.len() || st.iter_count != rep.durations.len() as u64 * rep.sample_size as u64 {
                finding(&mut f, prop, "stats-counts", format!("{}: statistics say {} samples / {} iterations; {} samples of size {} are kept", case.describe(), st.sample_count, st.iter_count, rep.durations.len(), rep.sample_size));
            }
        }
    }
    f
}
